#!/usr/bin/env python3
"""usage: import_round.py <outdir> <round> <variant-for-a> <variant-for-b> <needs.json> <id>...
Copies sub-agent deliverables <outdir>/<id>/{a,b}.patch.diff etc. into seeded/<id>-<variant>/ (idempotent)."""
import os, shutil, json, sys
out, rnd, va, vb, needs = sys.argv[1], int(sys.argv[2]), sys.argv[3], sys.argv[4], json.load(open(sys.argv[5]))
here = os.path.dirname(os.path.dirname(os.path.abspath(__file__)))
for cid in sys.argv[6:]:
    for v, w in (('a', va), ('b', vb)):
        src = f'{out}/{cid}'
        if not os.path.exists(f'{src}/{v}.patch.diff'):
            continue
        d = f'{here}/seeded/{cid}-{w}'
        if os.path.exists(d + '/meta.json'):
            continue
        os.makedirs(d, exist_ok=True)
        shutil.copy(f'{src}/{v}.patch.diff', d + '/patch.diff')
        shutil.copy(f'{src}/seeded_demo_{v}.rs', d + '/seeded_demo.rs')
        if os.path.exists(src + '/NOTES.md'):
            shutil.copy(src + '/NOTES.md', d + '/NOTES.md')
        json.dump({"property": cid, "variant": w, "round": rnd,
                   "origin": "independent sub-agent (given the property text, a scratch worktree and the list of mechanisms used by earlier rounds to avoid)",
                   "needs": needs.get(f'{cid}-{w}', 'see NOTES.md'), "notes_section": f"change {v.upper()} in NOTES.md",
                   "confirmed": None, "checks_run": None}, open(d + '/meta.json', 'w'), indent=1)
        print("imported", d)
