#!/usr/bin/env python3
"""Regenerates /verif/MANIFEST.json from the table below (kept in one place so that the manifest
is always valid and in step with the checks that exist)."""
import json, os, sys

HERE = os.path.dirname(os.path.dirname(os.path.abspath(__file__)))

# id -> (category, technique, level text, level note, design section)
CHECKS = {
    "C01": ("exploration", "runtime monitor: byte comparator with decoder-derived mask + fixpoint, over generated/hand-encoded/mutated inputs",
            "Every input the parser accepts (assets, built/signed packages, hand-encoded headers with all 10 types, accept-filtered single-bit/byte mutants) is written back and compared byte-for-byte with the input under a mask computed by an independent decoder; re-parse/re-write fixpoint checked. Held on the executions observed, not a proof. Inputs also include bytes removed / inserted at the segment seams, misaligned integer entries, entries behind the region; written bytes are also collected through a plain writer, write_file (among stale neighbour files) and read back through open() on files and pipes.",
            "independent decoder (model/codec.rs) locates reserved bytes and padding correctly; validated on the asset packages"),
    "C02": ("exploration", "runtime monitor: recording Verifying implementation + real pgp verifier on bit-flipped signed packages + verify / change-in-memory / verify histories on one object",
            "A recording verifier logs every call (data hash, signature bytes) under scripted accept/reject answers for enumerated signature-header shapes; success is judged against the call log and recomputed digests. Library-signed packages are mutated bit by bit and must never verify when the parsed value changed; an object that verified and is then changed in memory (also as a clone) must not verify again. Also: digests recorded as strict prefixes, size tags that understate the content, payload digest algorithms the library cannot compute, every bit of the compressed stream's envelope, appended bytes, structurally consistent header extensions, payload truncations.",
            "the pgp crate verifies correctly; harness encoder produces the signature-header shapes it claims"),
    "C03": ("exploration", "runtime monitor: independent digest recomputation (iff oracle) over tag subsets and bit flips",
            "verify_digests() is compared with a verdict recomputed from the input bytes by an independent decoder for every subset of digest tags x right/wrong values, unsupported/unknown payload digest algorithms and every single-bit flip of small packages. Also: digest values of other lengths, cancelling double errors, nibble-shifted MD5, unsorted signature indexes, other lead signature types, stale digests of the region only, CHAR entries, multi-string payload digests.",
            "sha2/sha1/md-5 crates; independent decoder"),
    "C04": ("exploration", "process-level monitors: panic hook, counting allocator with budget, exit status, watchdog; verifdbg overflow checks; valgrind/ASan/Miri replays in the thorough tier",
            "Hostile inputs (boundary products, every truncation, byte mutations, structure-aware mutation storms, hostile cpio) are parsed and then driven through every read-side operation inside worker processes that turn panics, aborts, oversized allocations and hangs into events. Both release and overflow-checking builds are run. The repository's packages are also read by builds of the library with other cargo feature sets (featprobe/): no panic.",
            "allocation budget 4 MiB + 256 x input; watchdog firing is inconclusive unless confirmed on an idle re-run"),
    "C05": ("exploration", "runtime monitor: independent header decoder vs every accessor",
            "Well-formed generated headers (each accessor's tags in right/wrong types, counts 0..n, i18n, 32/64-bit sizes, missing triple members, bad dirindexes, non-UTF-8) and the asset packages are decoded independently and compared with every accessor result, including the required error kinds. The check runs under a non-C locale environment; stored digests in upper case / of another algorithm's length; repeated dependency triples; empty directory names; device mode words; text with white space at its edges.",
            "accessor->tag table in the harness follows the RPM tag documentation"),
    "C06": ("exploration", "runtime monitor: configuration-as-model after build->write->parse",
            "Random builder configurations are built, written, re-parsed, and every supplied value is compared with the matching accessor (incl. dependencies equal to the ones the builder adds itself, link targets on non-link entries).",
            "source files and mtimes are created by the harness on the local file system"),
    "C07": ("exploration", "runtime monitor: configuration / independent cpio decoder vs files() iteration, incl. forced large-file mode",
            "Built packages over a size ladder, all compressors and levels, standard and stripped cpio (hook), and hand-encoded foreign archives are iterated with files(); every yielded (metadata, content) pair is compared with the configuration or an independent decoding; builds of the library with other cargo feature sets must read back what they build.",
            "large-file mode is forced through the verif-hooks feature; independent decompression uses the codec crates directly"),
    "C08": ("exploration", "runtime monitor: recomputed digests after independent decompression",
            "Header SHA-256, payload digest, alternate (uncompressed) payload digest and file digests of every built/signed/cleared package are recomputed from the written bytes. Also judged against the independently decoded archive (every entry type), with sources rewritten between with_file() and build(), one staging path rewritten between with_file() calls, proc/FIFO sources, permission-only modes, duplicate destinations, prefix-sibling names, and the repository's packages after sign/clear.",
            "sha2 crate; codec crates for decompression"),
    "C09": ("exploration", "runtime monitor: independent strict structural validator (rpm hdrblob rules + cpio + rpmlib)",
            "Every package emitted by build/sign/clear is checked by a validator written from rpm's header-loading rules; the validator must first accept rpmbuild's own packages.",
            "validator rules follow rpm's hdrblobVerify* logic as documented in DESIGN.md"),
    "C10": ("exploration", "runtime monitor: sequential model of the signing history checked after every step",
            "All operation sequences up to a bound (3 quick / 4-5 thorough) over {sign with 4 keys, clear, write+parse, failing sign attempt} from built packages, random histories (5 keys + a key pair generated at run time whose signing subkey is used as well) from built and foreign packages; after every step all keys are tried, key ids, digests and header/payload identity are compared with a 3-line model.",
            "test keys from the repository; pgp crate derives key ids"),
    "C11": ("exploration", "runtime monitor: byte identity across repeated builds and fresh processes + timestamp bound",
            "Configurations with several non-root owners are built repeatedly in-process and in freshly started processes (different hash seeds, TZ, cwd); distinct outputs per configuration must be 1 and every timestamp <= source date.",
            "deterministic signature schemes (Ed25519/RSA PKCS#1/ECDSA RFC6979) as measured"),
    "C12": ("exploration", "runtime monitor: file-system jail snapshot differ + panic hook",
            "Built and hostile hand-encoded packages are extracted inside a jail with canaries; a recursive before/after snapshot outside the target (files, directories and planted symbolic links with their targets) must be identical and the target must match the package; built packages are also extracted by an unprivileged child process (uid 65534, four umasks).",
            "hostile inputs are constructed so that escapes land inside the jail"),
    "C13": ("exploration", "runtime monitor: byte-level rpmvercmp port as reference + total-preorder matrix test (bounded-exhaustive + random)",
            "Every ordered pair of strings over a 12-symbol alphabet up to a bounded length and millions of random long pairs are compared with a port of rpm's C routine; the full matrix is tested to be a total preorder; EVR/NEVRA rules on enumerated tuples. Release and verifdbg profiles.",
            "port validated on upstream rpmvercmp.at vectors at every run"),
    "C14": ("fault_enumeration", "scripted io::Write (incl. write_vectored) / io::BufRead fault injection at every byte offset (persistent and transient) + chunking families",
            "A scripted sink fails at every offset 0..=len, accepts partial buffers and injects Interrupted/zero-length writes; a scripted source chunks and truncates reads at every offset. Output must be the canonical bytes or a prefix; parse results must not depend on chunking. Complete over failure offsets for each package used. OS level: /dev/full, closed and bursty pipes, open() through /proc/self/fd, real files, a 1 MiB payload and a 34 MiB header; sink failure kinds vary; a sink call budget reports writers that never stop.",
            "canonical bytes = write into a Vec; both release and verifdbg profiles"),
    "C15": ("exploration", "runtime monitor: tuple-as-model round trip (bounded-exhaustive + random) and panic hook",
            "All component tuples over a small alphabet (names with '-' and '.', empty epoch) and random longer ones are formatted and parsed back; all compression types (also in builds of the library with three other cargo feature sets); no-panic on enumerated and random text. Release and verifdbg profiles; empty release / arch; == judged in both directions.",
            "real-package component constraints listed in the evidence"),
    "C16": ("exploration", "runtime monitor: independent byte walk vs reported segment offsets",
            "For assets, built/signed/cleared packages and hand-encoded headers with all store sizes mod 8, the reported offsets are compared with boundaries found by walking the written bytes. Also slack / prefix / unterminated-tail / lead-field / > 256-entry sweeps, plain writers and write_file.",
            "independent decoder"),
    "C17": ("exploration", "panic hook + destination model over bounded-exhaustive destination strings, capability strings and compression levels",
            "All destinations over {/,.,..,a,bc} up to 7 tokens, capability strings, every compression type with levels across and beyond its range, metadata setters with odd strings: build must return Ok/Err, never panic; destinations without a file name must be errors; ordered pairs and triples of destinations incl. one directory under several spellings; every compression type in builds with other cargo feature sets. Both profiles.",
            "destination model independent of std::path"),
    "C18": ("exploration", "complete enumeration with bit-arithmetic oracle",
            "All 65 536 mode words, all 2^32 i32 values and all constructor arguments are converted and compared with direct bit arithmetic (exhaustive).",
            "none beyond the POSIX mode masks"),
    "C19": ("exploration", "runtime monitor: independent grammar acceptor over bounded-exhaustive token strings + random text",
            "Every string of up to 5 (quick) / 8 (thorough) tokens over the 13-token alphabet and random longer strings are judged by an independent acceptor; verbatim retention, FileOptions::caps error mapping and no-panic in both profiles. Second alphabet with upper-case flags and VT; name table with near misses, long lists, numbers; every text offered twice in a row; FileCaps::new judged like from_str.",
            "grammar model follows the statement; don't-care classes listed in DESIGN.md"),
    "C20": ("exploration", "runtime monitor: integer time arithmetic oracle over boundary windows, extremes, zones, random instants",
            "Every second in windows around 0, 2^31, 2^32 with sub-second offsets, extreme values, fixed-offset zones and random instants are converted and compared with integer arithmetic; ordering on sorted samples; file mtimes through the builder. Release and verifdbg profiles; leap-second instants; ordering through Timestamp's own Ord.",
            "SystemTime/chrono constructors build the requested instant"),
}

DESIGN_REF = {k: "DESIGN.md section 6, " + k for k in CHECKS}


def main():
    built = sorted(sys.argv[1:]) if len(sys.argv) > 1 else None
    if built is None:
        # a check exists when its module is registered
        reg = open(os.path.join(HERE, "harness/src/checks/mod.rs")).read()
        built = sorted(k for k in CHECKS if f"{k.lower()}::def()" in reg)
    checks = []
    for k in built:
        cat, tech, text, note = CHECKS[k]
        checks.append({
            "property_id": k,
            "quick_cmd": f"./bin/check {k} quick",
            "thorough_cmd": f"./bin/check {k} thorough",
            "evidence_file": f"/verif/evidence/{k}.json",
            "replay_cmd_template": f"./bin/check {k} --replay {{path}}",
            "engine": "rpmverif",
            "level_claimed": {"category": cat, "text": text, "design_ref": DESIGN_REF[k]},
            "level_note": note,
            "technique": tech,
        })
    na = [{"property_id": k, "reason": "check not built yet in this round (runtime monitor designed in DESIGN.md section 6); not claimed until it runs"} for k in sorted(CHECKS) if k not in built]
    hooks_commits = []
    try:
        import subprocess
        out = subprocess.run(["git", "-C", "/repo", "log", "--format=%H %s"], capture_output=True, text=True).stdout
        hooks_commits = [l.split()[0] for l in out.splitlines() if "verif hook" in l.lower()]
    except Exception:
        pass
    m = {
        "version": 1,
        "setup_cmd": "./bin/setup",
        "hooks": {
            "guard": "cargo feature verif-hooks",
            "enable": "the harness crate depends on rpm = { path = \"/repo\", features = [\"verif-hooks\", \"bzip2-compression\"] }; cargo rebuilds it from /repo's working tree on every check",
            "baseline_off_cmd": "cd /repo && cargo test --workspace --no-fail-fast --offline",
            "source_commits": hooks_commits,
            "add_only": True,
        },
        "engines": [{
            "name": "rpmverif",
            "path": "harness/",
            "serves_properties": built,
            "kind_free_text": "Rust harness driving the real library under generated/hostile workloads with monitors (reference models, recording trait implementations, panic/allocation/exit monitors in worker processes, fs jail differ); release + overflow-checking profiles; Miri/valgrind replays",
        }, {
            "name": "featprobe",
            "path": "featprobe/",
            "serves_properties": [k for k in ["C04", "C07", "C15", "C17"] if k in built],
            "kind_free_text": "small probe binary built against the library with three other cargo feature sets (none, gzip only, default); prints observations that the rpmverif checks judge",
        }],
        "checks": checks,
        "not_applicable": na,
        "notes": "All checks: ./bin/check <id> quick|thorough (exit 0 held / 1 VIOLATION / 2 inconclusive), VERIF_SEED selects the random streams. Known findings: known_findings.json.",
    }
    if not na:
        del m["not_applicable"]
        m["not_applicable"] = []
    json.dump(m, open(os.path.join(HERE, "MANIFEST.json"), "w"), indent=1)
    print("MANIFEST.json:", len(checks), "checks,", len(na), "not yet claimed")


if __name__ == "__main__":
    main()
