#!/usr/bin/env python3
"""Copies sub-agent deliverables from /tmp/seed/out/<id>/ into /verif/seeded/<id>-<a|b>/ (idempotent)."""
import os,shutil,json,sys
for cid in sys.argv[1:]:
    out=f'/tmp/seed/out/{cid}'
    for v in 'ab':
        if not os.path.exists(f'{out}/{v}.patch.diff'): continue
        d=f'/verif/seeded/{cid}-{v}'
        if os.path.exists(d+'/meta.json'): continue
        os.makedirs(d,exist_ok=True)
        shutil.copy(f'{out}/{v}.patch.diff', d+'/patch.diff')
        shutil.copy(f'{out}/seeded_demo_{v}.rs', d+'/seeded_demo.rs')
        if os.path.exists(out+'/NOTES.md'): shutil.copy(out+'/NOTES.md', d+'/NOTES.md')
        json.dump({"property":cid,"variant":v,"origin":"independent sub-agent given only the property text and a scratch worktree","needs":"see NOTES.md (section for change %s)"%v.upper(),"confirmed":None,"checks_run":None}, open(d+'/meta.json','w'), indent=1)
        print("imported",d)
