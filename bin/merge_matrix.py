#!/usr/bin/env python3
"""usage: merge_matrix.py <lane output files...> — merges 'seed=.. check=.. rc=..' lines of all-checks lanes into seeded/MATRIX.json"""
import re, json, sys, os
here = os.path.dirname(os.path.dirname(os.path.abspath(__file__)))
p = os.path.join(here, 'seeded/MATRIX.json')
m = json.load(open(p))
seen = {}
for f in sys.argv[1:]:
    for l in open(f, errors='replace'):
        g = re.match(r'seed=(\S+) check=(\S+) tier=(\S+) rc=(\d+) violations=(\d+)', l)
        if g:
            seen.setdefault(g.group(1), {})[g.group(2)] = int(g.group(4))
for s, checks in seen.items():
    if len(checks) < 20:
        print("incomplete, skipped:", s, len(checks)); continue
    m['caught_by'][s] = sorted(c for c, rc in checks.items() if rc == 1)
    inc = sorted(c for c, rc in checks.items() if rc not in (0, 1))
    if inc:
        m.setdefault('inconclusive', {})[s] = inc
    print(s, m['caught_by'][s], inc)
m['caught_by'] = dict(sorted(m['caught_by'].items()))
json.dump(m, open(p, 'w'), indent=1)
