#!/usr/bin/env python3
"""usage: record_results.py <label-before> <label-after> --first f1 f2 .. --after a1 a2 ..
Fills seeded/<id>/meta.json (confirmed, checks_run, caught_by, missed_by_first_harness) from lane outputs."""
import re, json, sys, os
here = os.path.dirname(os.path.dirname(os.path.abspath(__file__)))
lb, la = sys.argv[1], sys.argv[2]
args = sys.argv[3:]
i = args.index('--after')
ff, af = args[1:i], args[i + 1:]
def parse(files):
    res, conf, cur = {}, {}, None
    for f in files:
        for l in open(f, errors='replace'):
            m = re.match(r'CONFIRM (\S+): (.*)', l)
            if m: conf[m.group(1)] = m.group(2).strip()
            m = re.match(r'seed=(\S+) check=(\S+) tier=(\S+) rc=(\d+) violations=(\d+)', l)
            if m:
                cur = dict(check=m.group(2), tier=m.group(3), rc=int(m.group(4)), violation_classes=int(m.group(5)), classes=[])
                res.setdefault(m.group(1), []).append(cur)
            m = re.match(r'  class (\S+)', l)
            if m and cur is not None and len(cur['classes']) < 6: cur['classes'].append(m.group(1))
    return res, conf
first, conf = parse(ff)
after, _ = parse(af)
for s in sorted(first):
    p = f'{here}/seeded/{s}/meta.json'
    if not os.path.exists(p):
        print(s, 'not kept (no seeded dir)'); continue
    m = json.load(open(p))
    m['confirmed'] = conf.get(s, m.get('confirmed'))
    runs = [dict(harness=lb, **r) for r in first[s]] + [dict(harness=la, **r) for r in after.get(s, [])]
    m['checks_run'] = runs
    m['caught_by'] = sorted({r['check'] for r in after.get(s, []) if r['rc'] == 1})
    m['missed_by_first_harness'] = not any(r['rc'] == 1 for r in first[s])
    m['what_was_run'] = "bin/confirm_seed (scratch worktree) and bin/try_seed (the property's check, quick tier)"
    json.dump(m, open(p, 'w'), indent=1)
    print(s, 'missed-first' if m['missed_by_first_harness'] else 'caught-first', m['caught_by'])
