#!/usr/bin/env python3
"""Regenerates the seeded-change table in DESIGN.md (between the SEED-TABLE markers) from
seeded/*/meta.json and seeded/MATRIX.json."""
import json,glob,os,re
here=os.path.dirname(os.path.dirname(os.path.abspath(__file__)))
M=json.load(open(here+'/seeded/MATRIX.json'))['caught_by']
rows=["| change | round | what it needs in order to manifest | checks that raise a VIOLATION (quick tier; all 20 run unless marked) | first harness |","|---|---|---|---|---|"]
for d in sorted(glob.glob(here+'/seeded/C*-?/')):
    n=os.path.basename(d.rstrip('/')); meta=json.load(open(d+'meta.json'))
    caught=M.get(n) or meta.get('caught_by') or []
    scope='' if n in M else ' (own check only)'
    if meta.get('checks_run') is None:
        first='(not run yet)'
    else:
        first='missed' if meta.get('missed_by_first_harness') else 'caught'
    if meta.get('neutralised_by'):
        first+=f"; confirmed on {meta['base_commit']}, neutralised by the repair {meta['neutralised_by']}"
    rows.append(f"| {n} | {meta.get('round',1)} | {meta['needs']} | {', '.join(caught) or '-'}{scope} | {first} |")
p=here+'/DESIGN.md'
s=open(p).read()
b='<!-- SEED-TABLE-BEGIN -->'; e='<!-- SEED-TABLE-END -->'
assert b in s and e in s
s=s[:s.index(b)+len(b)]+'\n'+'\n'.join(rows)+'\n'+s[s.index(e):]
open(p,'w').write(s)
print(len(rows)-2,'rows')
