//! Demonstration for seeded change C18-B.
//!
//! `FileMode::try_from_raw(i)` is the fallible twin of `FileMode::from(i)`: it has to be
//! `FileMode::from(i).to_result()` for every integer. In particular a mode word which is handed
//! over in its signed reading (the RPM header declares the file modes as INT16, so 0o100644 may
//! well arrive as -32348) is a valid mode and not an error.

use rpm::FileMode;

fn describe(result: &Result<FileMode, rpm::Error>) -> String {
    match result {
        Ok(mode) => format!("Ok({mode:?})"),
        Err(e) => format!("Err({e})"),
    }
}

#[test]
fn try_from_raw_agrees_with_from_for_every_mode_word_in_both_readings() {
    let mut mismatches = Vec::new();
    for word in 0..=u16::MAX {
        let expected = FileMode::from(word).to_result();
        for raw in [word as i32, word as i16 as i32] {
            let actual = FileMode::try_from_raw(raw);
            let same = match (&expected, &actual) {
                (Ok(e), Ok(a)) => e == a && a.raw_mode() == word,
                (Err(_), Err(_)) => true,
                _ => false,
            };
            if !same {
                mismatches.push(format!(
                    "word {word:#08o} as {raw}: expected {}, got {}",
                    describe(&expected),
                    describe(&actual)
                ));
            }
        }
    }
    assert!(
        mismatches.is_empty(),
        "{} mismatches, the first ones:\n{}",
        mismatches.len(),
        mismatches[..mismatches.len().min(5)].join("\n")
    );
}

#[test]
fn signed_reading_of_common_modes() {
    // 0o100644, 0o100755 and 0o120777 as an INT16 header field would have them
    for (raw, expected) in [
        (0o100644_u16 as i16 as i32, FileMode::regular(0o644)),
        (0o100755_u16 as i16 as i32, FileMode::regular(0o755)),
        (0o104755_u16 as i16 as i32, FileMode::regular(0o4755)),
        (0o120777_u16 as i16 as i32, FileMode::symbolic_link(0o777)),
    ] {
        assert!(raw < 0);
        assert_eq!(FileMode::from(raw), expected);
        let mode = FileMode::try_from_raw(raw)
            .unwrap_or_else(|e| panic!("try_from_raw({raw}) failed: {e}"));
        assert_eq!(mode, expected);
    }
    // really out of range
    assert!(FileMode::try_from_raw(65536).is_err());
    assert!(FileMode::try_from_raw(-32769).is_err());
    assert!(FileMode::try_from_raw(i32::MIN).is_err());
}
