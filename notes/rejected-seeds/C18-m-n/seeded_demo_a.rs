//! Demonstration for seeded change C18-A.
//!
//! A mode word is 16 bits wide. `FileMode::from(i32)` accepts it in its unsigned reading
//! (0..=65535) and in its signed reading (-32768..=32767) and has to produce the very same
//! `FileMode` for both; only integers which are outside of both ranges are "out of 16bit bounds".

use rpm::FileMode;

#[test]
fn signed_and_unsigned_reading_of_every_mode_word_agree() {
    let mut mismatches = Vec::new();
    for word in 0..=u16::MAX {
        let unsigned_reading = FileMode::from(word as i32);
        let signed_reading = FileMode::from(word as i16 as i32);
        let direct = FileMode::from(word);
        if unsigned_reading != direct || signed_reading != direct {
            mismatches.push(format!(
                "{word:#08o}: from(u16) = {direct:?}, from({}) = {unsigned_reading:?}, from({}) = {signed_reading:?}",
                word as i32, word as i16 as i32
            ));
        }
        assert_eq!(direct.raw_mode(), word);
        assert_eq!(signed_reading.raw_mode(), word);
    }
    assert!(
        mismatches.is_empty(),
        "{} mode word(s) are classified differently:\n{}",
        mismatches.len(),
        mismatches.join("\n")
    );
}

#[test]
fn bounds_of_the_accepted_integer_range() {
    const OUT_OF_BOUNDS: &str = "provided integer is out of 16bit bounds";
    let reason = |raw: i32| match FileMode::from(raw) {
        FileMode::Invalid { reason, .. } => Some(reason),
        _ => None,
    };
    // just outside
    assert_eq!(reason(65536), Some(OUT_OF_BOUNDS));
    assert_eq!(reason(-32769), Some(OUT_OF_BOUNDS));
    assert_eq!(reason(i32::MAX), Some(OUT_OF_BOUNDS));
    assert_eq!(reason(i32::MIN), Some(OUT_OF_BOUNDS));
    // just inside: 65535 has an unknown file type, but it is a 16 bit word
    assert_eq!(reason(65535), Some("unknown file type"));
    // -32768 is 0o100000 read as i16: a regular file without any permission bit
    assert_eq!(FileMode::from(-32768), FileMode::regular(0));
    assert_eq!(
        FileMode::try_from_raw(-32768).expect("0o100000 is a valid mode"),
        FileMode::Regular { permissions: 0 }
    );
    // -32767 is 0o100001
    assert_eq!(FileMode::from(-32767), FileMode::regular(0o001));
}
