//! Demonstration for seeded change B (C19).
//!
//! Every operator (`=`, `+`, `-`) introduces a possibly EMPTY list of flags; the only
//! thing that is forbidden is two operators directly next to each other.  So a clause
//! may end in an operator no matter how many groups come before it: `cap_chown=` is
//! well formed, and so are `cap_chown=e+`, `cap_chown+ep-` and `=ip-`.

use std::str::FromStr;

use rpm::{FileCaps, FileOptions, validate_caps_text};

#[test]
fn clause_may_end_in_an_operator_after_earlier_groups() {
    for text in [
        "cap_chown=e+",
        "cap_chown+ep-",
        "cap_chown=e-i=",
        "=ip-",
        "all=eip+",
        "cap_chown,cap_kill-e+ =p",
        "=e cap_chown+p-",
    ] {
        let caps = FileCaps::from_str(text)
            .unwrap_or_else(|e| panic!("FileCaps::from_str({text:?}) rejected: {e}"));
        assert_eq!(&caps.to_string(), text);

        let caps = FileCaps::new(text.to_string())
            .unwrap_or_else(|e| panic!("FileCaps::new({text:?}) rejected: {e}"));
        assert_eq!(&caps.to_string(), text);

        validate_caps_text(text).unwrap_or_else(|e| panic!("{text:?} rejected: {e}"));
    }
}

#[test]
fn file_options_accept_trailing_operator_after_earlier_groups() {
    FileOptions::new("/usr/bin/ping")
        .caps("cap_net_raw=ep-")
        .expect("`cap_net_raw=ep-` is well formed");
}

/// A lone operator was and is accepted, adjacent operators were and are rejected
/// (this part passes with and without the change).
#[test]
fn neighbours_keep_their_verdict() {
    for text in ["cap_chown=", "cap_chown+", "cap_chown-", "=", "= cap_chown+"] {
        assert!(FileCaps::from_str(text).is_ok(), "{text:?}");
    }
    for text in ["cap_chown=e+-", "cap_chown=e-+p", "cap_chown==", "=e+x-", "cap_chown=e +"] {
        assert!(FileCaps::from_str(text).is_err(), "{text:?}");
    }
}
