//! Demonstration for seeded change C18/A.
//!
//! The header stores file modes as 16-bit integers and "it does not really matter if we use u16
//! or i16" (comment on FileMode): an i32 that is a sign-extended i16 (-32768..=-1) is inside the
//! 16-bit range and has to convert exactly like the u16 with the same bits. Only integers
//! outside i16::MIN..=u16::MAX are out of bounds.

use rpm::{Error, FileMode};

#[test]
fn sign_extended_words_convert_like_their_unsigned_twin() {
    // every word with the top bit set, given the way an i16 reader would hand it over
    for word in 0x8000u16..=0xFFFF {
        let signed = i32::from(word as i16);
        assert!((-32768..=-1).contains(&signed));

        let from_signed = FileMode::from(signed);
        let from_word = FileMode::from(word);
        assert_eq!(from_signed, from_word, "{signed} vs {word:#o}");
        assert_eq!(from_signed.raw_mode(), word);
        assert_eq!(from_signed.file_type() | from_signed.permissions(), word);
        assert_eq!(
            FileMode::try_from_raw(signed).is_ok(),
            from_word.to_result().is_ok(),
            "{signed}"
        );
    }
}

#[test]
fn regular_files_and_symlinks_given_as_i16() {
    // 0o100644 and 0o120777 as i16
    assert_eq!(FileMode::from(-32348i32), FileMode::regular(0o644));
    assert_eq!(FileMode::try_from_raw(-32348).unwrap(), FileMode::regular(0o644));
    assert_eq!(FileMode::from(-24065i32), FileMode::symbolic_link(0o777));
    assert_eq!(FileMode::from(i32::from(i16::MIN)), FileMode::regular(0));

    // unknown type bits: invalid because of the type, not because of the range
    match FileMode::try_from_raw(-1) {
        Err(Error::InvalidFileMode { raw_mode, reason }) => {
            assert_eq!((raw_mode, reason), (0xFFFF, "unknown file type"));
        }
        other => panic!("{other:?}"),
    }
}

#[test]
fn out_of_range_integers_stay_invalid() {
    for raw in [-32769, -65536, i32::MIN, 65536, 0o200755, i32::MAX] {
        assert!(
            matches!(
                FileMode::from(raw),
                FileMode::Invalid { raw_mode, reason: "provided integer is out of 16bit bounds" } if raw_mode == raw
            ),
            "{raw}"
        );
        assert!(FileMode::try_from_raw(raw).is_err());
    }
}
