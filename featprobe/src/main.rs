//! Prints one observation per line; the harness (C04 / C15 / C17) judges them.
//!   OBS roundtrip <variant> <name> <ok|neq:<parsed>|err:<message>|panic:<message>>
//!   OBS build <compression> <ok:<bytes>|err:<message>|panic:<message>>
//!   OBS reread <compression> <ok:<files>|err:<message>|panic:<message>>
//!   OBS asset <file name> parse=<ok|err|panic> files=<ok:<n>|err|panic|->
use std::panic::{catch_unwind, AssertUnwindSafe};
use std::str::FromStr;

fn msg(p: Box<dyn std::any::Any + Send>) -> String {
    let s = if let Some(s) = p.downcast_ref::<&str>() { s.to_string() } else if let Some(s) = p.downcast_ref::<String>() { s.clone() } else { "?".to_string() };
    s.replace(['\n', ' '], "_")
}

fn one_line(e: impl std::fmt::Display) -> String {
    e.to_string().replace(['\n', ' '], "_")
}

fn main() {
    std::panic::set_hook(Box::new(|_| {}));
    let args: Vec<String> = std::env::args().collect();
    let repo = args.get(1).cloned().unwrap_or_else(|| "/repo".to_string());
    let scratch = args.get(2).cloned().unwrap_or_else(|| std::env::temp_dir().display().to_string());
    use rpm::CompressionType as T;
    for v in [T::None, T::Gzip, T::Zstd, T::Xz, T::Bzip2] {
        let r = catch_unwind(AssertUnwindSafe(|| {
            let name = v.to_string();
            (name.clone(), T::from_str(&name))
        }));
        match r {
            Ok((name, Ok(p))) if p == v => println!("OBS roundtrip {v:?} {name} ok"),
            Ok((name, Ok(p))) => println!("OBS roundtrip {v:?} {name} neq:{p:?}"),
            Ok((name, Err(e))) => println!("OBS roundtrip {v:?} {name} err:{}", one_line(e)),
            Err(p) => println!("OBS roundtrip {v:?} ? panic:{}", msg(p)),
        }
    }
    let src = std::path::Path::new(&scratch).join("featprobe-source.txt");
    let _ = std::fs::write(&src, b"content of the probe file\n");
    use rpm::CompressionWithLevel as L;
    let levels: Vec<(&str, rpm::CompressionWithLevel)> = vec![("none", L::None), ("gzip6", L::Gzip(6)), ("zstd3", L::Zstd(3)), ("xz6", L::Xz(6)), ("bzip2-6", L::Bzip2(6))];
    for (label, c) in levels {
        let built = catch_unwind(AssertUnwindSafe(|| {
            rpm::PackageBuilder::new("probe", "1.0", "MIT", "noarch", "feature probe")
                .compression(c)
                .with_file(&src, rpm::FileOptions::new("/usr/share/probe/file.txt"))
                .and_then(|b| b.build())
                .and_then(|p| {
                    let mut v = Vec::new();
                    p.write(&mut v).map(|_| v)
                })
        }));
        let bytes = match built {
            Ok(Ok(v)) => {
                println!("OBS build {label} ok:{}", v.len());
                Some(v)
            }
            Ok(Err(e)) => {
                println!("OBS build {label} err:{}", one_line(e));
                None
            }
            Err(p) => {
                println!("OBS build {label} panic:{}", msg(p));
                None
            }
        };
        if let Some(v) = bytes {
            let r = catch_unwind(AssertUnwindSafe(|| {
                let p = rpm::Package::parse(&mut &v[..])?;
                let mut n = 0usize;
                for f in p.files()? {
                    let f = f?;
                    if f.content != b"content of the probe file\n" {
                        return Err(rpm::Error::from(std::io::Error::other("content differs")));
                    }
                    n += 1;
                }
                Ok::<usize, rpm::Error>(n)
            }));
            match r {
                Ok(Ok(n)) => println!("OBS reread {label} ok:{n}"),
                Ok(Err(e)) => println!("OBS reread {label} err:{}", one_line(e)),
                Err(p) => println!("OBS reread {label} panic:{}", msg(p)),
            }
        }
    }
    let _ = std::fs::remove_file(&src);
    for rel in [
        "test_assets/389-ds-base-devel-1.3.8.4-15.el7.x86_64.rpm",
        "test_assets/freesrp-udev-0.3.0-1.25.x86_64.rpm",
        "test_assets/ima_signed.rpm",
        "test_assets/rpm-sign-4.15.1-1.fc31.x86_64.rpm",
        "test_assets/fixture_packages/rpm-empty-0-0.x86_64.rpm",
        "test_assets/fixture_packages/rpm-empty-0-0.src.rpm",
    ] {
        let path = std::path::Path::new(&repo).join(rel);
        let Ok(bytes) = std::fs::read(&path) else {
            println!("OBS asset {rel} parse=missing files=-");
            continue;
        };
        let parsed = catch_unwind(AssertUnwindSafe(|| rpm::Package::parse(&mut &bytes[..])));
        match parsed {
            Err(p) => println!("OBS asset {rel} parse=panic:{} files=-", msg(p)),
            Ok(Err(_)) => println!("OBS asset {rel} parse=err files=-"),
            Ok(Ok(p)) => {
                let r = catch_unwind(AssertUnwindSafe(|| {
                    let mut n = 0usize;
                    for f in p.files()? {
                        f?;
                        n += 1;
                    }
                    Ok::<usize, rpm::Error>(n)
                }));
                match r {
                    Ok(Ok(n)) => println!("OBS asset {rel} parse=ok files=ok:{n}"),
                    Ok(Err(e)) => println!("OBS asset {rel} parse=ok files=err:{}", one_line(e)),
                    Err(p) => println!("OBS asset {rel} parse=ok files=panic:{}", msg(p)),
                }
            }
        }
    }
    println!("OBS done");
}
