//! Check registry and orchestration (release process is the orchestrator; checks that must also be
//! judged with debug assertions / overflow checks run a sub-process of the `verifdbg` binary and
//! merge its report).

use crate::util::report::{finish, Ctx, Meta, Report, ReportData};
use std::path::PathBuf;

pub mod c01;
pub mod c02;
pub mod c03;
pub mod c04;
pub mod c05;
pub mod c06;
pub mod c07;
pub mod c08;
pub mod c09;
pub mod c10;
pub mod c11;
pub mod c12;
pub mod c13;
pub mod c14;
pub mod c15;
pub mod c16;
pub mod c17;
pub mod c18;
pub mod c19;
pub mod c20;

pub struct CheckDef {
    pub id: &'static str,
    pub run: fn(&Ctx, &Report),
    pub meta: fn(&Ctx) -> Meta,
    /// also run in the verifdbg profile (debug assertions + overflow checks)
    pub dbg: bool,
    pub replay: Option<fn(&Ctx, &serde_json::Value, &Report)>,
}

pub fn registry() -> Vec<CheckDef> {
    vec![
        c01::def(),
        c02::def(),
        c03::def(),
        c04::def(),
        c05::def(),
        c06::def(),
        c07::def(),
        c08::def(),
        c09::def(),
        c10::def(),
        c11::def(),
        c12::def(),
        c13::def(),
        c14::def(),
        c15::def(),
        c16::def(),
        c17::def(),
        c18::def(),
        c19::def(),
        c20::def(),
    ]
}

fn find(id: &str) -> Option<CheckDef> {
    registry().into_iter().find(|c| c.id == id)
}

/// run a check; a panic that escapes the check's own guards is a violation when it comes from the
/// library under test and an inconclusive run when it comes from the harness
fn run_guarded(ctx: &Ctx, def: &CheckDef, rep: &Report) {
    let mut escaped: Vec<crate::util::par::PanicInfo> = Vec::new();
    if let Err(p) = crate::util::par::guard(|| (def.run)(ctx, rep)) {
        escaped.push(p);
    }
    escaped.extend(crate::util::par::ESCAPED.lock().unwrap_or_else(|e| e.into_inner()).drain(..));
    let repo_src = format!("{}/src/", ctx.repo_dir.display());
    for p in escaped {
        if p.file.starts_with(&repo_src) || !p.rpm_frame.is_empty() {
            rep.violation(format!("panic:{}", p.site()), format!("the library panicked outside of a guarded operation: {} at {}:{}", p.message, p.file, p.line), serde_json::json!({"kind": "escaped-panic", "message": p.message, "file": p.file, "frame": p.rpm_frame}), 0);
        } else {
            rep.inconclusive(format!("harness panicked: {} at {}:{}", p.message, p.file, p.line));
        }
    }
}

fn dbg_binary() -> Option<PathBuf> {
    if let Ok(p) = std::env::var("VERIF_DBG_BIN") {
        let p = PathBuf::from(p);
        if p.exists() {
            return Some(p);
        }
    }
    None
}

pub fn run_check(ctx: &Ctx) -> i32 {
    let Some(def) = find(&ctx.id) else {
        eprintln!("unknown check {}", ctx.id);
        return 64;
    };
    crate::util::par::install_panic_hook();
    let rep = Report::new();
    // the sub-run in the other profile goes first in the background
    let sub = if def.dbg && !ctx.is_dbg() {
        match dbg_binary() {
            Some(bin) => {
                let out = std::env::var("VERIF_WORK_DIR").map(PathBuf::from).unwrap_or_else(|_| ctx.verif_dir.join("work")).join(format!("{}-dbg-{}.json", ctx.id, std::process::id()));
                let _ = std::fs::create_dir_all(out.parent().unwrap());
                let child = std::process::Command::new(&bin)
                    .args(["subcheck", &ctx.id, ctx.tier.name(), out.to_str().unwrap()])
                    .env("VERIF_SEED", ctx.seed.to_string())
                    .env("VERIF_THREADS", (ctx.threads / 2).max(2).to_string())
                    .stdout(std::process::Stdio::null())
                    .spawn();
                match child {
                    Ok(c) => Some((c, out)),
                    Err(e) => {
                        rep.inconclusive(format!("cannot start verifdbg binary: {e}"));
                        None
                    }
                }
            }
            None => {
                rep.inconclusive("verifdbg binary not available (VERIF_DBG_BIN)");
                None
            }
        }
    } else {
        None
    };
    run_guarded(ctx, &def, &rep);
    if let Some((mut child, out)) = sub {
        match child.wait() {
            Ok(st) if st.success() => match std::fs::read(&out).ok().and_then(|b| serde_json::from_slice::<ReportData>(&b).ok()) {
                Some(data) => rep.merge("dbg.", data),
                None => rep.inconclusive("verifdbg sub-run wrote no readable report"),
            },
            Ok(st) => rep.inconclusive(format!("verifdbg sub-run ended with {st}")),
            Err(e) => rep.inconclusive(format!("verifdbg sub-run: {e}")),
        }
        let _ = std::fs::remove_file(&out);
    }
    finish(ctx, rep, (def.meta)(ctx))
}

/// run a check in this process' profile and dump the raw report (used for the verifdbg pass)
pub fn run_subcheck(ctx: &Ctx, out: &str) -> i32 {
    let Some(def) = find(&ctx.id) else { return 64 };
    crate::util::par::install_panic_hook();
    let rep = Report::new();
    run_guarded(ctx, &def, &rep);
    let data = rep.into_data();
    match std::fs::write(out, serde_json::to_vec(&data).unwrap()) {
        Ok(_) => 0,
        Err(e) => {
            eprintln!("cannot write {out}: {e}");
            3
        }
    }
}

pub fn run_replay(ctx: &Ctx, path: &str) -> i32 {
    let Some(def) = find(&ctx.id) else { return 64 };
    let w: serde_json::Value = match std::fs::read(path).ok().and_then(|b| serde_json::from_slice(&b).ok()) {
        Some(w) => w,
        None => {
            eprintln!("cannot read witness {path}");
            return 64;
        }
    };
    println!("witness: key={} what={}", w["key"], w["what"]);
    let Some(replay) = def.replay else {
        println!("{}", serde_json::to_string_pretty(&w["witness"]).unwrap());
        println!("(no single-case replay for this check: re-run `bin/check {} {}` with VERIF_SEED={})", ctx.id, w["tier"].as_str().unwrap_or("quick"), w["seed"]);
        return 0;
    };
    crate::util::par::install_panic_hook();
    let rep = Report::new();
    replay(ctx, &w["witness"], &rep);
    let data = rep.into_data();
    if data.violations.is_empty() {
        println!("replay: the monitor reports NO violation for this witness on the current tree");
        0
    } else {
        for (k, v) in &data.violations {
            println!("replay: VIOLATION property={} replay={} class={} : {}", ctx.id, path, k, v.what);
        }
        1
    }
}

pub fn selftest() -> i32 {
    let mut bad = 0;
    let mut run = |name: &str, r: Result<usize, String>| match r {
        Ok(n) => eprintln!("selftest {name}: ok ({n} cases)"),
        Err(e) => {
            eprintln!("selftest {name}: FAILED: {e}");
            bad += 1;
        }
    };
    run("rpmvercmp-port vs upstream vectors", crate::model::rpmvercmp::selftest());
    run("caps grammar", crate::model::caps::selftest());
    if bad == 0 { 0 } else { 1 }
}

/// judges that run inside worker children (`rpmverif worker <name>`)
pub fn worker_judges() -> Vec<(&'static str, crate::monitor::worker::Judge)> {
    vec![("c04", c04::judge_c04), ("c04z", c04::judge_c04z), ("c01", c01::judge_c01), ("c03", c03::judge_c03), ("c02b", c02::judge_c02b)]
}
