//! C13 — version comparison equals rpm's rpmvercmp and is a total preorder.

use super::CheckDef;
use crate::model::rpmvercmp::rpmvercmp;
use crate::util::par::{guard, par_for};
use crate::util::report::{Ctx, Meta, Report};
use crate::util::rng::{hash_bytes, Rng};
use rpm::{rpm_evr_compare, Evr, Nevra};
use serde_json::json;
use std::cmp::Ordering;
use std::sync::atomic::{AtomicU64, Ordering as AO};

pub fn def() -> CheckDef {
    CheckDef { id: "C13", run, meta, dbg: true, replay: Some(replay) }
}

fn meta(ctx: &Ctx) -> Meta {
    Meta {
        level: "exploration",
        rule: format!(
            "bounded-exhaustive + random: every ordered pair of strings over the 12-symbol alphabet {{0,1,9,a,B,z,.,-,_,~,^,é}} up to length {} is compared through the public Evr ordering (version, release and epoch slots) and judged against a byte-level port of rpm's rpmvercmp(); the full result matrix is checked to be a total preorder (rank-function test: cmp(a,b) must equal the order of the counts of strictly-smaller elements, which is equivalent to reflexive+antisymmetric+transitive); EVR triples and rpm_evr_compare() text forms are judged against (epoch-or-0, version, release) lexicographic order; Eq=>Equal for Evr/Nevra; plus seeded long random pairs biased to shared prefixes, zero runs, separator runs, ~/^ clusters. Runs in release and (with smaller bounds) in the overflow-checking verifdbg profile. distinct_nontrivial = distinct strings enumerated + distinct random pairs (first 2M hashed)",
            ctx.tier.pick(3, 4)
        ),
        assumptions: vec![
            "the port in model/rpmvercmp.rs is faithful to rpm's C routine (validated at every run on the upstream rpmvercmp.at vectors)".into(),
            "strings contain no NUL byte (C strings)".into(),
        ],
        floor_distinct: 1000,
    }
}

const ALPHABET: [&str; 12] = ["0", "1", "9", "a", "B", "z", ".", "-", "_", "~", "^", "é"];

fn enumerate(alpha: &[&str], maxlen: usize) -> Vec<String> {
    let mut out = vec![String::new()];
    let mut frontier = vec![String::new()];
    for _ in 0..maxlen {
        let mut next = Vec::with_capacity(frontier.len() * alpha.len());
        for s in &frontier {
            for a in alpha {
                let mut t = s.clone();
                t.push_str(a);
                next.push(t);
            }
        }
        out.extend(next.iter().cloned());
        frontier = next;
    }
    out
}

fn ord_name(o: Ordering) -> &'static str {
    match o {
        Ordering::Less => "Less",
        Ordering::Equal => "Equal",
        Ordering::Greater => "Greater",
    }
}

#[derive(Clone, Copy)]
enum Slot {
    Version,
    Release,
    Epoch,
}

fn lib_cmp(slot: Slot, a: &str, b: &str) -> Ordering {
    match slot {
        Slot::Version => Evr::new("", a, "").cmp(&Evr::new("", b, "")),
        Slot::Release => Evr::new("", "", a).cmp(&Evr::new("", "", b)),
        Slot::Epoch => Evr::new(a, "", "").cmp(&Evr::new(b, "", "")),
    }
}

fn model_cmp(slot: Slot, a: &str, b: &str) -> Ordering {
    match slot {
        Slot::Epoch => {
            let a = if a.is_empty() { "0" } else { a };
            let b = if b.is_empty() { "0" } else { b };
            rpmvercmp(a.as_bytes(), b.as_bytes())
        }
        _ => rpmvercmp(a.as_bytes(), b.as_bytes()),
    }
}

fn model_evr(a: (&str, &str, &str), b: (&str, &str, &str)) -> Ordering {
    model_cmp(Slot::Epoch, a.0, b.0)
        .then_with(|| rpmvercmp(a.1.as_bytes(), b.1.as_bytes()))
        .then_with(|| rpmvercmp(a.2.as_bytes(), b.2.as_bytes()))
}

fn model_parse_evr(s: &str) -> (&str, &str, &str) {
    let (e, vr) = match s.find(':') {
        Some(i) => (&s[..i], &s[i + 1..]),
        None => ("", s),
    };
    let (v, r) = match vr.find('-') {
        Some(i) => (&vr[..i], &vr[i + 1..]),
        None => (vr, ""),
    };
    (e, v, r)
}

fn pair_violation(rep: &Report, kind: &str, a: &str, b: &str, got: Ordering, want: Ordering) {
    rep.violation(
        format!("{kind}:lib={},rpmvercmp={}", ord_name(got), ord_name(want)),
        format!("{kind}: cmp({a:?}, {b:?}) = {} but rpm's algorithm gives {}", ord_name(got), ord_name(want)),
        json!({"kind": kind, "a": a, "b": b}),
        (a.len() + b.len()) as u64,
    );
}

/// total-preorder test on the full matrix via the rank function
fn preorder_check(ctx: &Ctx, rep: &Report, label: &str, n: usize, cmp: &(dyn Fn(usize, usize) -> Ordering + Sync), show: &(dyn Fn(usize) -> String + Sync)) {
    let ranks: Vec<AtomicU64> = (0..n).map(|_| AtomicU64::new(0)).collect();
    par_for(ctx.threads, n as u64, 8, |i| {
        let i = i as usize;
        let mut smaller = 0u64;
        for j in 0..n {
            if cmp(j, i) == Ordering::Less {
                smaller += 1;
            }
        }
        ranks[i].store(smaller, AO::Relaxed);
    });
    let bad = AtomicU64::new(0);
    par_for(ctx.threads, n as u64, 8, |i| {
        let i = i as usize;
        let ri = ranks[i].load(AO::Relaxed);
        for j in 0..n {
            let c = cmp(i, j);
            let want = ri.cmp(&ranks[j].load(AO::Relaxed));
            if c != want {
                if bad.fetch_add(1, AO::Relaxed) > 20 {
                    return;
                }
                let rev = cmp(j, i);
                if i == j {
                    rep.violation(format!("{label}:not-reflexive"), format!("cmp(x,x) = {} for x={}", ord_name(c), show(i)), json!({"kind": "reflexive", "label": label, "a": show(i)}), 1);
                } else if c != rev.reverse() {
                    rep.violation(
                        format!("{label}:not-antisymmetric"),
                        format!("cmp(a,b)={} but cmp(b,a)={} for a={} b={}", ord_name(c), ord_name(rev), show(i), show(j)),
                        json!({"kind": "antisymmetric", "label": label, "a": show(i), "b": show(j)}),
                        2,
                    );
                } else {
                    // look for a third element that exposes the intransitivity
                    let mut third = None;
                    for k in 0..n {
                        let (ik, kj) = (cmp(i, k), cmp(k, j));
                        let implied = match (ik, kj) {
                            (Ordering::Less, Ordering::Less) | (Ordering::Less, Ordering::Equal) | (Ordering::Equal, Ordering::Less) => Some(Ordering::Less),
                            (Ordering::Greater, Ordering::Greater) | (Ordering::Greater, Ordering::Equal) | (Ordering::Equal, Ordering::Greater) => Some(Ordering::Greater),
                            (Ordering::Equal, Ordering::Equal) => Some(Ordering::Equal),
                            _ => None,
                        };
                        if let Some(imp) = implied {
                            if imp != c {
                                third = Some((k, ik, kj));
                                break;
                            }
                        }
                    }
                    let (what, w) = match third {
                        Some((k, ik, kj)) => (
                            format!("intransitive: cmp(a,c)={} cmp(c,b)={} but cmp(a,b)={} for a={} c={} b={}", ord_name(ik), ord_name(kj), ord_name(c), show(i), show(k), show(j)),
                            json!({"kind": "transitive", "label": label, "a": show(i), "c": show(k), "b": show(j)}),
                        ),
                        None => (format!("order inconsistent with rank function for a={} b={}", show(i), show(j)), json!({"kind": "rank", "label": label, "a": show(i), "b": show(j)})),
                    };
                    rep.violation(format!("{label}:not-transitive"), what, w, 3);
                }
            }
        }
    });
    rep.eval(2 * (n as u64) * (n as u64));
    rep.count(&format!("{label}.matrix_elements"), n as u64);
    let classes: std::collections::BTreeSet<u64> = ranks.iter().map(|r| r.load(AO::Relaxed)).collect();
    rep.count(&format!("{label}.equivalence_classes"), classes.len() as u64);
}

fn random_version(r: &mut Rng, base: Option<&str>) -> String {
    const SEG: [&str; 38] = ["²", "١", "Ⅷ", "ß", "99999999999999999999", "18446744073709551616", "18446744073709551615", "000000000000000000000001", "340282366920938463463374607431768211456", "9223372036854775808", "0", "00", "1", "01", "001", "9", "10", "123", "20101121", "a", "b", "rc", "RC", "git", "alpha", "Z", ".", "..", "-", "_", "+", "~", "~~", "^", "^^", "é", "~^", "^~"];
    let mut s = String::new();
    if let Some(b) = base {
        // shared prefix of random length (cut at a char boundary)
        let mut cut = r.usize(b.len() + 1);
        while !b.is_char_boundary(cut) {
            cut -= 1;
        }
        s.push_str(&b[..cut]);
    }
    let n = r.usize(10);
    for _ in 0..n {
        s.push_str(SEG[r.usize(SEG.len())]);
        if s.len() > 64 {
            break;
        }
    }
    s
}

fn run(ctx: &Ctx, rep: &Report) {
    if let Err(e) = crate::model::rpmvercmp::selftest() {
        rep.inconclusive(format!("reference model failed its self-test: {e}"));
        return;
    }
    let maxlen = if ctx.is_dbg() { 3 } else { ctx.tier.pick(3, 4) };
    let strings = enumerate(&ALPHABET, maxlen);
    let n = strings.len();
    rep.count("enumerated_strings", n as u64);
    rep.nontrivial_many(strings.iter().map(|s| hash_bytes(s.as_bytes())));

    // 1. all ordered pairs against the port, three slots
    let slots: &[(Slot, &str)] = &[(Slot::Version, "version-slot"), (Slot::Release, "release-slot"), (Slot::Epoch, "epoch-slot")];
    let slot_sets: Vec<(Slot, &str, &[String])> = slots
        .iter()
        .map(|(s, name)| {
            // the two secondary slots use the length-3 set in the thorough tier to bound cost
            let lim = if matches!(s, Slot::Version) { n } else { enumerate(&ALPHABET, 3).len().min(n) };
            (*s, *name, &strings[..lim])
        })
        .collect();
    for (slot, name, set) in &slot_sets {
        let m = set.len();
        let outcomes = [AtomicU64::new(0), AtomicU64::new(0), AtomicU64::new(0)];
        par_for(ctx.threads, m as u64, 4, |i| {
            let a = &set[i as usize];
            let r = guard(|| {
                let mut local = [0u64; 3];
                for b in set.iter() {
                    let got = lib_cmp(*slot, a, b);
                    let want = model_cmp(*slot, a, b);
                    if got != want {
                        pair_violation(rep, name, a, b, got, want);
                    }
                    local[(got as i8 + 1) as usize] += 1;
                }
                for k in 0..3 {
                    outcomes[k].fetch_add(local[k], AO::Relaxed);
                }
            });
            if let Err(p) = r {
                rep.violation(format!("panic:{}", p.site()), format!("panic comparing {a:?}: {}", p.message), json!({"kind": name, "a": a}), a.len() as u64);
            }
        });
        rep.eval((m * m) as u64);
        rep.count(&format!("{name}.pairs"), (m * m) as u64);
        rep.count(&format!("{name}.less"), outcomes[0].load(AO::Relaxed));
        rep.count(&format!("{name}.equal"), outcomes[1].load(AO::Relaxed));
        rep.count(&format!("{name}.greater"), outcomes[2].load(AO::Relaxed));
    }

    // 1b. thorough: length 5 over an 8-symbol sub-alphabet (37 449 strings, 1.4e9 ordered pairs)
    if ctx.tier.pick(false, true) && !ctx.is_dbg() {
        let sub = enumerate(&["0", "1", "a", "B", ".", "~", "^", "-"], 5);
        let m = sub.len();
        rep.count("enumerated_strings_len5_subalphabet", m as u64);
        par_for(ctx.threads, m as u64, 4, |i| {
            let a = &sub[i as usize];
            let r = guard(|| {
                for b in sub.iter() {
                    let got = lib_cmp(Slot::Version, a, b);
                    let want = model_cmp(Slot::Version, a, b);
                    if got != want {
                        pair_violation(rep, "version-slot-len5", a, b, got, want);
                    }
                }
            });
            if let Err(p) = r {
                rep.violation(format!("panic:{}", p.site()), format!("panic comparing {a:?}: {}", p.message), json!({"kind": "version-slot", "a": a}), a.len() as u64);
            }
        });
        rep.eval((m * m) as u64);
        rep.nontrivial_many(sub.iter().map(|s| hash_bytes(s.as_bytes())));
    }

    // 2. total preorder on the whole matrix (version slot = the comparison primitive)
    let cmpf = |i: usize, j: usize| lib_cmp(Slot::Version, &strings[i], &strings[j]);
    let showf = |i: usize| format!("{:?}", strings[i]);
    match guard(|| preorder_check(ctx, rep, "vercmp", n, &cmpf, &showf)) {
        Ok(()) => {}
        Err(p) => rep.violation(format!("panic:{}", p.site()), p.message.clone(), json!({"kind":"matrix"}), 0),
    }

    // 3. EVR triples: lexicographic rule, Eq => Equal, partial_cmp consistent, rpm_evr_compare text form
    let comps = enumerate(&["0", "1", "a", ".", "~", "^"], 2);
    let epochs = ["", "0", "1", "2", "10", "01", "a"];
    let mut evrs: Vec<(String, String, String)> = Vec::new();
    let comp_small: Vec<&String> = comps.iter().filter(|c| c.chars().count() <= ctx.tier.pick(1, 2)).collect();
    for e in epochs {
        for v in &comp_small {
            for r in &comp_small {
                evrs.push((e.to_string(), (*v).clone(), (*r).clone()));
            }
        }
    }
    // cap the matrix size
    let cap = ctx.tier.pick(1200, 6000);
    if evrs.len() > cap {
        let mut rng = Rng::for_case(ctx.seed, "C13-evrs", 0);
        rng.shuffle(&mut evrs);
        evrs.truncate(cap);
    }
    // triples whose components contain the separators themselves, chosen so that different triples
    // print the same text: equality and order are functions of the components, not of the text
    for t in [("", "1-2", "3"), ("", "1", "2-3"), ("", "1-2-3", ""), ("", "1", "2"), ("", "1-2", ""), ("", "1", "2-"), ("0", "1", "2"), ("", "0:1", "2"), ("0", "1-2", "3"), ("1", "2:3", "4"), ("1:2", "3", "4"), ("", "1:2-3", "4"), ("", "a", "b-c"), ("", "a-b", "c")] {
        evrs.push((t.0.to_string(), t.1.to_string(), t.2.to_string()));
    }
    let ne = evrs.len();
    rep.count("evr_triples", ne as u64);
    rep.nontrivial_many(evrs.iter().map(|t| hash_bytes(format!("{}:{}-{}", t.0, t.1, t.2).as_bytes())));
    par_for(ctx.threads, ne as u64, 4, |i| {
        let a = &evrs[i as usize];
        let ea = Evr::new(a.0.as_str(), a.1.as_str(), a.2.as_str());
        let r = guard(|| {
            for b in &evrs {
                let eb = Evr::new(b.0.as_str(), b.1.as_str(), b.2.as_str());
                let got = ea.cmp(&eb);
                let want = model_evr((&a.0, &a.1, &a.2), (&b.0, &b.1, &b.2));
                if got != want {
                    rep.violation(
                        format!("evr-order:lib={},model={}", ord_name(got), ord_name(want)),
                        format!("Evr{a:?} cmp Evr{b:?} = {} but (epoch-or-0, version, release) order gives {}", ord_name(got), ord_name(want)),
                        json!({"kind":"evr","a":[a.0,a.1,a.2],"b":[b.0,b.1,b.2]}),
                        (a.0.len() + a.1.len() + a.2.len() + b.0.len() + b.1.len() + b.2.len()) as u64,
                    );
                }
                if ea == eb && got != Ordering::Equal {
                    rep.violation("evr-eq-not-equal", format!("Evr{a:?} == Evr{b:?} but cmp = {}", ord_name(got)), json!({"kind":"evr","a":[a.0,a.1,a.2],"b":[b.0,b.1,b.2]}), 1);
                }
                if ea.partial_cmp(&eb) != Some(got) {
                    rep.violation("evr-partial-cmp", format!("partial_cmp != Some(cmp) for Evr{a:?}, Evr{b:?}"), json!({"kind":"evr","a":[a.0,a.1,a.2],"b":[b.0,b.1,b.2]}), 1);
                }
            }
        });
        if let Err(p) = r {
            rep.violation(format!("panic:{}", p.site()), p.message.clone(), json!({"kind":"evr","a":[a.0,a.1,a.2]}), 0);
        }
    });
    rep.eval((ne * ne) as u64);
    let cmpe = |i: usize, j: usize| {
        let (a, b) = (&evrs[i], &evrs[j]);
        Evr::new(a.0.as_str(), a.1.as_str(), a.2.as_str()).cmp(&Evr::new(b.0.as_str(), b.1.as_str(), b.2.as_str()))
    };
    let showe = |i: usize| format!("{:?}", evrs[i]);
    if let Err(p) = guard(|| preorder_check(ctx, rep, "evr", ne, &cmpe, &showe)) {
        rep.violation(format!("panic:{}", p.site()), p.message.clone(), json!({"kind":"evr-matrix"}), 0);
    }

    // rpm_evr_compare on text forms
    let texts = enumerate(&["0", "1", "a", ":", "-", ".", "~"], ctx.tier.pick(3, 4));
    let nt = texts.len();
    rep.count("evr_text_strings", nt as u64);
    par_for(ctx.threads, nt as u64, 4, |i| {
        let a = &texts[i as usize];
        let r = guard(|| {
            for b in &texts {
                let got = rpm_evr_compare(a, b);
                let want = model_evr(model_parse_evr(a), model_parse_evr(b));
                if got != want {
                    rep.violation(
                        format!("evr-text:lib={},model={}", ord_name(got), ord_name(want)),
                        format!("rpm_evr_compare({a:?}, {b:?}) = {} but the model gives {}", ord_name(got), ord_name(want)),
                        json!({"kind":"evr-text","a":a,"b":b}),
                        (a.len() + b.len()) as u64,
                    );
                }
            }
        });
        if let Err(p) = r {
            rep.violation(format!("panic:{}", p.site()), p.message.clone(), json!({"kind":"evr-text","a":a}), 0);
        }
    });
    rep.eval((nt * nt) as u64);

    // 4. Nevra: Eq => Equal and total preorder on a small tuple set
    let names = ["a", "a-b", "a.b", "b", "a1", "A"];
    let arches = ["x", "x86_64", "noarch", ""];
    let mut nevras: Vec<[String; 5]> = Vec::new();
    for nme in names {
        for e in ["", "0", "1"] {
            for v in ["1", "1.0", "1~a", "2"] {
                for rl in ["1", "2", ""] {
                    for ar in arches {
                        nevras.push([nme.into(), e.into(), v.into(), rl.into(), ar.into()]);
                    }
                }
            }
        }
    }
    let nn = nevras.len();
    rep.count("nevra_tuples", nn as u64);
    let mk = |t: &[String; 5]| Nevra::new(t[0].clone(), t[1].clone(), t[2].clone(), t[3].clone(), t[4].clone());
    let nv: Vec<Nevra<'static>> = nevras.iter().map(mk).collect();
    par_for(ctx.threads, nn as u64, 4, |i| {
        let a = &nv[i as usize];
        let r = guard(|| {
            for b in &nv {
                let got = a.cmp(b);
                if a == b && got != Ordering::Equal {
                    rep.violation("nevra-eq-not-equal", format!("{a:?} == {b:?} but cmp = {}", ord_name(got)), json!({"kind":"nevra","a":format!("{a:?}"),"b":format!("{b:?}")}), 1);
                }
                if a.partial_cmp(b) != Some(got) {
                    rep.violation("nevra-partial-cmp", "partial_cmp != Some(cmp)".to_string(), json!({"kind":"nevra","a":format!("{a:?}"),"b":format!("{b:?}")}), 1);
                }
            }
        });
        if let Err(p) = r {
            rep.violation(format!("panic:{}", p.site()), p.message.clone(), json!({"kind":"nevra"}), 0);
        }
    });
    rep.eval((nn * nn) as u64);
    let cmpn = |i: usize, j: usize| nv[i].cmp(&nv[j]);
    let shown = |i: usize| format!("{:?}", nevras[i]);
    if let Err(p) = guard(|| preorder_check(ctx, rep, "nevra", nn, &cmpn, &shown)) {
        rep.violation(format!("panic:{}", p.site()), p.message.clone(), json!({"kind":"nevra-matrix"}), 0);
    }

    // 5. random long pairs
    let nrand: u64 = ctx.tier.pick(2_000_000, 600_000_000) / if ctx.is_dbg() { 20 } else { 1 };
    let hashed = AtomicU64::new(0);
    let chunk = 10_000u64;
    par_for(ctx.threads, nrand / chunk, 1, |c| {
        let mut rng = Rng::for_case(ctx.seed, "C13-random", c);
        let mut hs = Vec::new();
        let r = guard(|| {
            for _ in 0..chunk {
                let a = random_version(&mut rng, None);
                let b = if rng.chance(3, 4) { random_version(&mut rng, Some(&a)) } else { random_version(&mut rng, None) };
                let got = lib_cmp(Slot::Version, &a, &b);
                let want = rpmvercmp(a.as_bytes(), b.as_bytes());
                if got != want {
                    pair_violation(rep, "random-pair", &a, &b, got, want);
                }
                let back = lib_cmp(Slot::Version, &b, &a);
                if back != got.reverse() {
                    rep.violation("random:not-antisymmetric", format!("cmp({a:?},{b:?})={} cmp(b,a)={}", ord_name(got), ord_name(back)), json!({"kind":"random-pair","a":a,"b":b}), (a.len() + b.len()) as u64);
                }
                if c < 200 {
                    hs.push(hash_bytes(format!("{a}\u{0}{b}").as_bytes()));
                }
            }
        });
        if let Err(p) = r {
            rep.violation(format!("panic:{}", p.site()), p.message.clone(), json!({"kind":"random-pair","chunk":c}), 0);
        }
        hashed.fetch_add(hs.len() as u64, AO::Relaxed);
        rep.nontrivial_many(hs);
    });
    rep.eval(nrand * 2);
    rep.count("random_pairs", nrand);

    let mut rng = Rng::for_case(ctx.seed, "C13-samples", 0);
    for _ in 0..6 {
        let a = random_version(&mut rng, None);
        let b = random_version(&mut rng, Some(&a));
        rep.sample(json!({"a": a, "b": b, "lib": ord_name(lib_cmp(Slot::Version, &a, &b)), "rpmvercmp": ord_name(rpmvercmp(a.as_bytes(), b.as_bytes()))}));
    }
    for (a, b) in [("1.0~rc1", "1.0"), ("1.0^git1", "1.01"), ("é1", "1"), ("01", "1"), ("a", "1")] {
        rep.sample(json!({"a": a, "b": b, "lib": ord_name(lib_cmp(Slot::Version, a, b)), "rpmvercmp": ord_name(rpmvercmp(a.as_bytes(), b.as_bytes()))}));
    }
    rep.note(format!("exhaustive over alphabet {:?} up to length {} ({} strings)", ALPHABET, maxlen, n));
}

fn replay(_ctx: &Ctx, w: &serde_json::Value, rep: &Report) {
    let a = w["a"].as_str().unwrap_or("");
    let b = w["b"].as_str().unwrap_or("");
    match w["kind"].as_str().unwrap_or("") {
        "evr-text" => {
            let got = rpm_evr_compare(a, b);
            let want = model_evr(model_parse_evr(a), model_parse_evr(b));
            println!("monitor: rpm_evr_compare({a:?},{b:?}) = {} ; model = {}", ord_name(got), ord_name(want));
            if got != want {
                rep.violation("replay", "mismatch", w.clone(), 0);
            }
        }
        "evr" => {
            let g = |k: &str, i: usize| w[k][i].as_str().unwrap_or("").to_string();
            let (a0, a1, a2, b0, b1, b2) = (g("a", 0), g("a", 1), g("a", 2), g("b", 0), g("b", 1), g("b", 2));
            let got = Evr::new(a0.as_str(), a1.as_str(), a2.as_str()).cmp(&Evr::new(b0.as_str(), b1.as_str(), b2.as_str()));
            let want = model_evr((&a0, &a1, &a2), (&b0, &b1, &b2));
            println!("monitor: Evr cmp = {} ; model = {}", ord_name(got), ord_name(want));
            if got != want {
                rep.violation("replay", "mismatch", w.clone(), 0);
            }
        }
        "transitive" => {
            let c = w["c"].as_str().unwrap_or("");
            let un = |s: &str| serde_json::from_str::<String>(s).unwrap_or(s.to_string());
            let (a, b, c) = (un(a), un(b), un(c));
            let (ac, cb, ab) = (lib_cmp(Slot::Version, &a, &c), lib_cmp(Slot::Version, &c, &b), lib_cmp(Slot::Version, &a, &b));
            println!("monitor: cmp(a,c)={} cmp(c,b)={} cmp(a,b)={}", ord_name(ac), ord_name(cb), ord_name(ab));
            if (ac == cb || ac == Ordering::Equal || cb == Ordering::Equal) && ab != if ac == Ordering::Equal { cb } else { ac } {
                rep.violation("replay", "intransitive", w.clone(), 0);
            }
        }
        _ => {
            for (slot, name) in [(Slot::Version, "version"), (Slot::Release, "release"), (Slot::Epoch, "epoch")] {
                let got = lib_cmp(slot, a, b);
                let want = model_cmp(slot, a, b);
                println!("monitor: {name} slot cmp({a:?},{b:?}) = {} ; rpmvercmp = {}", ord_name(got), ord_name(want));
                if got != want {
                    rep.violation("replay", "mismatch", w.clone(), 0);
                }
            }
        }
    }
}
