//! C12 — extraction recreates the files and never touches anything outside the target
//! (file-system jail snapshot differ + panic hook).

use super::CheckDef;
use crate::gen::build::*;
use crate::gen::hdr::*;
use crate::model::cpio as mcpio;
use crate::util::par::{guard, par_for};
use crate::util::report::{Ctx, Meta, Report};
use crate::util::rng::Rng;
use rpm::Package;
use serde_json::json;
use std::collections::BTreeMap;
use std::os::unix::fs::{MetadataExt, PermissionsExt};
use std::path::{Path, PathBuf};

pub fn def() -> CheckDef {
    CheckDef { id: "C12", run, meta, dbg: true, replay: Some(replay) }
}

fn meta(_ctx: &Ctx) -> Meta {
    Meta {
        level: "exploration",
        rule: "every extraction runs in a fresh jail J with the target at J/l1/l2/l3/l4/l5/target and canary files/directories on every level outside the target; a full recursive snapshot (type, mode, size, mtime ns, content hash, link target) of J minus the target is taken before and after and must be identical. Positive: seeded built packages (nested directories, explicit directory entries, symlinks, all permission bits incl. setuid/setgid/sticky) must produce every regular file / directory / symlink at target+path with the archived content, permission bits and link target. Hostile (hand-encoded header + cpio; all absolute paths and symlink targets point into J, '..' chains at most 5 long): '..' in directory or base names, base names with '/', absolute base names, empty names, duplicate paths, a symlink followed by a file of the same path or below it (absolute and relative targets, to a file and to a directory), directory then symlink of the same name, FIFO/char/block/socket/zero type bits, names disagreeing between cpio and header; result must be Ok or Err, never a panic. Release and verifdbg. Unprivileged phase: built packages (incl. read-only directory entries with children) are written to a file and extracted by a child process running as uid 65534 under umask 022 / 077 / 000 / 027; same oracles. Further hostile families: entries whose directory name lies below a link, lone links to existing outside objects, links to siblings of the target whose names start with the target's name. Hostile packages are extracted to the canonical spelling of the target, to a spelling with . and .. components and through a symbolic link to its parent; the unprivileged child runs with 48 file descriptors and every tenth of its packages has 120-320 files. distinct_nontrivial = distinct extractions whose jail snapshots were compared The outside directories (outside-dir, its sub and sub/deeper, the target's sibling) hold symbolic links under the names the hostile entries use below their links (state, planted, l2, state-dir, planted-dir): a link removed or re-pointed out there is an escape".into(),
        assumptions: vec!["hostile inputs are constructed so that an escaping write lands inside the jail".into()],
        floor_distinct: 100,
    }
}

// ---------------------------------------------------------------------------------------------
// jail

type Snap = BTreeMap<String, String>;

fn snapshot(root: &Path, exclude: &Path) -> Snap {
    fn walk(dir: &Path, root: &Path, exclude: &Path, out: &mut Snap) {
        let Ok(rd) = std::fs::read_dir(dir) else { return };
        for e in rd.flatten() {
            let p = e.path();
            if p == exclude {
                continue;
            }
            let Ok(md) = std::fs::symlink_metadata(&p) else { continue };
            let rel = p.strip_prefix(root).unwrap().to_string_lossy().to_string();
            let ft = md.file_type();
            let desc = if ft.is_symlink() {
                format!("symlink -> {:?}", std::fs::read_link(&p).ok())
            } else if ft.is_dir() {
                format!("dir mode={:o}", md.mode() & 0o7777)
            } else {
                let content = std::fs::read(&p).unwrap_or_default();
                format!("file mode={:o} size={} mtime={}.{} sha256={}", md.mode() & 0o7777, md.len(), md.mtime(), md.mtime_nsec(), &crate::util::sha256_hex(&content)[..16])
            };
            out.insert(rel, desc);
            if ft.is_dir() {
                walk(&p, root, exclude, out);
            }
        }
    }
    let mut s = Snap::new();
    walk(root, root, exclude, &mut s);
    s
}

struct Jail {
    root: PathBuf,
    target: PathBuf,
    before: Snap,
}

fn make_jail(root: &Path) -> Jail {
    let _ = std::fs::remove_dir_all(root);
    let mut d = root.to_path_buf();
    std::fs::create_dir_all(&d).unwrap();
    std::fs::write(d.join("canary.txt"), b"canary at jail root").unwrap();
    for (i, l) in ["l1", "l2", "l3", "l4", "l5"].iter().enumerate() {
        d = d.join(l);
        std::fs::create_dir_all(&d).unwrap();
        std::fs::write(d.join("canary.txt"), format!("canary at level {}", i + 1)).unwrap();
        std::fs::create_dir_all(d.join("canary-dir")).unwrap();
        std::fs::write(d.join("canary-dir").join("inner"), b"inner canary").unwrap();
    }
    std::fs::create_dir_all(root.join("outside-dir").join("sub").join("deeper")).unwrap();
    std::fs::write(root.join("outside-dir").join("secret"), b"secret outside the target").unwrap();
    std::fs::create_dir_all(d.join("sibling")).unwrap();
    std::fs::write(d.join("sibling").join("file"), b"sibling of the target").unwrap();
    // symbolic links that already exist out there under the names the hostile entries use below their
    // links ("state", "planted", "l2", ...): an extraction that tidies up "its" destination before it
    // looks at the parents removes them (seeded change C12-t); the snapshot records links with their targets
    {
        use std::os::unix::fs::symlink;
        let o = root.join("outside-dir");
        for name in ["state", "planted", "l2", "state-dir", "planted-dir"] {
            let _ = symlink("secret", o.join(name));
            let _ = symlink("../secret", o.join("sub").join(name));
            let _ = symlink("../../secret", o.join("sub").join("deeper").join(name));
            let _ = symlink("file", d.join("sibling").join(name));
        }
    }
    // siblings whose NAMES start with the target's name (a containment test on strings instead of
    // path components would take them for the inside)
    for sib in ["target.previous", "target-old", "targetX", "target "] {
        std::fs::create_dir_all(d.join(sib).join("sub")).unwrap();
        std::fs::write(d.join(sib).join("file"), b"sibling whose name starts like the target").unwrap();
    }
    // another way to reach the target's parent: J/alias -> l1/l2/l3/l4/l5
    let _ = std::os::unix::fs::symlink("l1/l2/l3/l4/l5", root.join("alias"));
    let target = d.join("target");
    let before = snapshot(root, &target);
    Jail { root: root.to_path_buf(), target, before }
}

fn jail_diff(j: &Jail) -> Vec<String> {
    let after = snapshot(&j.root, &j.target);
    let mut d = Vec::new();
    for (k, v) in &j.before {
        match after.get(k) {
            None => d.push(format!("removed {k}")),
            Some(a) if a != v => d.push(format!("modified {k}: {v} => {a}")),
            _ => {}
        }
    }
    for (k, v) in &after {
        if !j.before.contains_key(k) {
            d.push(format!("created {k}: {v}"));
        }
    }
    d
}

// ---------------------------------------------------------------------------------------------
// positive part

fn positive_cfg(rng: &mut Rng) -> BuildCfg {
    let mut cfg = gen_cfg(rng, &GenOpts { max_files: 0, all_levels: false, ..Default::default() });
    cfg.files.clear();
    let n = 1 + rng.usize(7);
    let mut used = std::collections::BTreeSet::new();
    for i in 0..n {
        let dest = rand_dest(rng, &mut used, i);
        let kind = rng.below(10);
        let (mode, symlink, size) = match kind {
            0 | 1 => (Some(0o120777), Some(["../t", "/etc/passwd-does-not-matter", "rel/ative", "x"][rng.usize(4)].to_string()), 0usize),
            2 => (Some(0o040000 | [0o755, 0o700, 0o1777, 0o2775, 0o555][rng.usize(5)]), None, 0),
            3..=6 => (Some(0o100000 | [0o644, 0o755, 0o600, 0o4755, 0o2755, 0o1644, 0o7777, 0o444, 0o400][rng.usize(9)]), None, rng.usize(5000)),
            _ => (None, None, rng.usize(300)),
        };
        cfg.files.push(FileCfg {
            dest,
            content_kind: if rng.bool() { "noise".into() } else { "text".into() },
            size,
            content_seed: rng.next(),
            mode,
            source_perm: [0o644, 0o755, 0o600][rng.usize(3)],
            user: None,
            group: None,
            flags: vec![],
            caps: None,
            symlink,
            mtime: 1_500_000_000,
            verify: None,
        });
    }
    // links to files and directories of the same package, sorting before and after what they point
    // to (the permission bits of a link entry must not end up on its target)
    if rng.chance(1, 3) && !cfg.files.iter().any(|f| f.dest.contains("/opt/pair")) {
        let mk = |dest: &str, mode: i32, symlink: Option<&str>, size: usize| FileCfg {
            dest: dest.into(),
            content_kind: "text".into(),
            size,
            content_seed: 7,
            mode: Some(mode),
            source_perm: 0o644,
            user: None,
            group: None,
            flags: vec![],
            caps: None,
            symlink: symlink.map(|s| s.to_string()),
            mtime: 1_500_000_000,
            verify: None,
        };
        let fmode = 0o100000 | [0o600, 0o640, 0o4711, 0o444][rng.usize(4)];
        let dmode = 0o040000 | [0o700, 0o750, 0o2775][rng.usize(3)];
        cfg.files.push(mk("/opt/pair/m-target", fmode, None, 33));
        // content that ends in (or consists of) long runs of zero bytes: every byte must arrive
        for (k, size) in [4096usize, 8192 + 10, 12_288, 4095].into_iter().enumerate() {
            let mut z = mk(&format!("/opt/pair/zeros-{k}"), 0o100644, None, size);
            z.content_kind = if k == 1 { "tail-zeros".into() } else { "zero".into() };
            cfg.files.push(z);
        }
        cfg.files.push(mk("/opt/pair/a-link", 0o120777, Some("m-target"), 0));
        cfg.files.push(mk("/opt/pair/z-link", 0o120777, Some("m-target"), 0));
        cfg.files.push(mk("/opt/pair/m-dir", dmode, None, 0));
        cfg.files.push(mk("/opt/pair/m-dir/inside", 0o100644, None, 5));
        cfg.files.push(mk("/opt/pair/b-dirlink", 0o120777, Some("m-dir"), 0));
        cfg.files.push(mk("/opt/pair/y-dirlink", 0o120777, Some("/opt/pair/m-dir"), 0));
        // sibling names of which one extends the other with a character below '/'
        for (d, fname) in [("app", "run"), ("app-data", "blob"), ("app.d", "10-x.conf"), ("app data", "y"), ("app+", "z")] {
            cfg.files.push(mk(&format!("/opt/pair/{d}/{fname}"), 0o100644, None, 12));
        }
        // ordinary relative links whose targets climb to the package root (and beyond) and come down again
        cfg.files.push(mk("/opt/pair/r-link", 0o120777, Some("../../opt/pair/m-target"), 0));
        cfg.files.push(mk("/opt/pair/s-link", 0o120777, Some("../../../../../../etc/os-release-does-not-matter"), 0));
        cfg.files.push(mk("/opt/pair/t-link", 0o120777, Some(".."), 0));
    }
    // explicit entries for directories that contain other entries (their archived mode must win over
    // whatever mode the directory got when it was created for its children)
    let parents: Vec<String> = cfg
        .files
        .iter()
        .filter_map(|f| {
            let p = installed_path(&f.dest);
            let cut = p.rfind('/')?;
            if cut == 0 { None } else { Some(p[..cut].to_string()) }
        })
        .collect();
    for p in parents {
        if rng.chance(1, 2) && !cfg.files.iter().any(|f| installed_path(&f.dest) == p) {
            cfg.files.push(FileCfg {
                dest: p,
                content_kind: "zero".into(),
                size: 0,
                content_seed: 0,
                mode: Some(0o040000 | [0o755, 0o700, 0o1777, 0o2775, 0o750, 0o711, 0o555, 0o500][rng.usize(8)]),
                source_perm: 0o644,
                user: None,
                group: None,
                flags: vec![],
                caps: None,
                symlink: None,
                mtime: 1_500_000_000,
                verify: None,
            });
        }
    }
    cfg
}

fn check_target(cfg: &BuildCfg, target: &Path) -> Vec<(String, String)> {
    let mut v = Vec::new();
    for f in &cfg.files {
        let rel = installed_path(&f.dest);
        let p = target.join(rel.trim_start_matches('/'));
        let mode = expected_mode(f);
        let md = std::fs::symlink_metadata(&p);
        match mode & 0o170000 {
            0o100000 => match md {
                Ok(md) if md.file_type().is_file() => {
                    if std::fs::read(&p).ok() != Some(file_content(f)) {
                        v.push(("positive:content".to_string(), format!("{rel}: extracted content differs from the archived content")));
                    }
                    if md.permissions().mode() & 0o7777 != (mode & 0o7777) as u32 {
                        v.push(("positive:permissions:file".to_string(), format!("{rel}: permission bits {:o}, package says {:o}", md.permissions().mode() & 0o7777, mode & 0o7777)));
                    }
                }
                _ => v.push(("positive:missing:regular-file".to_string(), format!("{rel}: no regular file at target+path"))),
            },
            0o040000 => match md {
                Ok(md) if md.file_type().is_dir() => {
                    if md.permissions().mode() & 0o7777 != (mode & 0o7777) as u32 {
                        v.push(("positive:permissions:dir".to_string(), format!("{rel}: directory permission bits {:o}, package says {:o}", md.permissions().mode() & 0o7777, mode & 0o7777)));
                    }
                }
                _ => v.push(("positive:missing:directory".to_string(), format!("{rel}: no directory at target+path"))),
            },
            0o120000 => match md {
                Ok(md) if md.file_type().is_symlink() => {
                    let t = std::fs::read_link(&p).map(|t| t.to_string_lossy().to_string()).unwrap_or_default();
                    if Some(&t) != f.symlink.as_ref() {
                        v.push(("positive:link-target".to_string(), format!("{rel}: link target {t:?}, package says {:?}", f.symlink)));
                    }
                }
                _ => v.push(("positive:missing:symlink".to_string(), format!("{rel}: no symbolic link at target+path"))),
            },
            _ => {}
        }
    }
    v
}

// ---------------------------------------------------------------------------------------------
// hostile part

struct Hostile {
    /// address archive entries by header index (stripped cpio) instead of by name: duplicate paths
    /// stay distinguishable
    stripped: bool,
    label: String,
    files: Vec<HFile>,
    contents: Vec<Vec<u8>>,
    /// cpio names (None = "." + header path)
    names: Vec<Option<Vec<u8>>>,
    /// record the sizes as 64-bit values (LONGFILESIZES) although the archive is name-addressed
    long_sizes: bool,
}

fn hfile(dir: &str, base: &str, mode: u16, content: &[u8], linkto: &str) -> (HFile, Vec<u8>) {
    let mut f = HFile::new(dir, base, mode, content);
    f.linkto = linkto.as_bytes().to_vec();
    (f, content.to_vec())
}

fn hostile_cases(jail_root: &Path, rng: &mut Rng, n_random: usize) -> Vec<Hostile> {
    let j = jail_root.to_string_lossy().to_string();
    let outside = format!("{j}/outside-dir");
    let mut out: Vec<Hostile> = Vec::new();
    let mut add = |label: &str, items: Vec<(HFile, Vec<u8>)>| {
        let (files, contents): (Vec<HFile>, Vec<Vec<u8>>) = items.into_iter().unzip();
        let n = files.len();
        out.push(Hostile { stripped: false, label: label.to_string(), files, contents, names: vec![None; n], long_sizes: false });
    };
    let reg = 0o100644u16;
    // '..' components
    for up in 1..=5 {
        let dots = "../".repeat(up);
        add("dotdot-in-dirname", vec![hfile(&format!("/{dots}"), "escaped", reg, b"escaped via dirname", "")]);
        add("dotdot-in-dirname", vec![hfile(&format!("/a/b/../../{dots}x/"), "escaped", reg, b"escaped via dirname", "")]);
        add("dotdot-in-basename", vec![hfile("/a/", &format!("../{dots}escaped"), reg, b"escaped via basename", "")]);
        add("dotdot-dir-entry", vec![hfile(&format!("/{dots}"), "newdir", 0o040755, b"", "")]);
        add("dotdot-symlink-entry", vec![hfile(&format!("/{dots}"), "newlink", 0o120777, b"", "canary.txt")]);
    }
    add("dotdot-overwrites-canary", vec![hfile("/../", "canary.txt", reg, b"overwritten canary", "")]);
    add("dotdot-overwrites-canary", vec![hfile("/../sibling/", "file", reg, b"overwritten sibling", "")]);
    add("dotdot-replaces-canary-with-symlink", vec![hfile("/../", "canary.txt", 0o120777, b"", "sibling/file")]);
    add("dotdot-chmods-outside-dir", vec![hfile("/../", "sibling", 0o040000, b"", "")]);
    // base names with '/', absolute base names, absolute dirnames into the jail
    add("slash-in-basename", vec![hfile("/a/", "b/c/d", reg, b"nested via basename", "")]);
    add("absolute-basename", vec![hfile("/a/", &format!("{outside}/abs-evil"), reg, b"absolute basename", "")]);
    // two and three leading slashes (stripping one of them leaves an absolute path)
    for sl in ["/", "//", "///"] {
        add("multi-slash-absolute-basename", vec![hfile("/a/", &format!("{sl}{outside}/abs-evil2"), reg, b"absolute basename", "")]);
        add("multi-slash-absolute-basename-root", vec![hfile("/", &format!("{sl}{outside}/abs-evil3"), reg, b"absolute basename", "")]);
        add("multi-slash-absolute-dirname", vec![hfile(&format!("{sl}{outside}/"), "abs-evil4", reg, b"absolute dirname", "")]);
        add("multi-slash-absolute-dirname-dir", vec![hfile(&format!("{sl}{outside}/"), "abs-evil-dir", 0o040755, b"", "")]);
        add("multi-slash-absolute-symlink", vec![hfile(&format!("{sl}{outside}/"), "abs-evil-link", 0o120777, b"", "secret")]);
    }
    add("absolute-dirname-into-jail", vec![hfile(&format!("{outside}/"), "abs-evil", reg, b"absolute dirname", "")]);
    add("relative-dirname", vec![hfile("rel/", "f", reg, b"relative dirname", "")]);
    add("empty-names", vec![hfile("", "", reg, b"empty", "")]);
    add("empty-basename", vec![hfile("/a/", "", reg, b"empty base", "")]);
    add("dot-names", vec![hfile("/./", ".", reg, b"dot", ""), hfile("/a/./b/", "f", reg, b"x", "")]);
    add("duplicate-paths", vec![hfile("/a/", "dup", reg, b"first", ""), hfile("/a/", "dup", reg, b"second", "")]);
    add("duplicate-file-then-dir", vec![hfile("/a/", "dup", reg, b"first", ""), hfile("/a/", "dup", 0o040755, b"", "")]);
    // symlink followed by a file of the same path
    for (lbl, tgt) in [("abs-file", format!("{outside}/secret")), ("rel-file", "../../../../../../../outside-dir/secret".to_string()), ("abs-new", format!("{outside}/created-through-link")), ("rel-canary", "../../canary.txt".to_string())] {
        add(&format!("symlink-then-file-same-path:{lbl}"), vec![hfile("/a/", "link", 0o120777, b"", &tgt), hfile("/a/", "link", reg, b"written through the link", "")]);
    }
    // symlink to a directory followed by a file below it
    for (lbl, tgt) in [("abs-dir", outside.clone()), ("rel-dir", "../../sibling".to_string()), ("rel-up", "../..".to_string())] {
        add(&format!("symlink-then-file-below:{lbl}"), vec![hfile("/a/", "lnk", 0o120777, b"", &tgt), hfile("/a/lnk/", "planted", reg, b"planted below a symlink", "")]);
        add(&format!("symlink-then-dir-below:{lbl}"), vec![hfile("/a/", "lnk", 0o120777, b"", &tgt), hfile("/a/lnk/", "planted-dir", 0o040700, b"", "")]);
        // the dirname pre-creation loop alone (no file entry below)
        add(&format!("symlink-then-symlink-below:{lbl}"), vec![hfile("/a/", "lnk", 0o120777, b"", &tgt), hfile("/a/lnk/", "l2", 0o120777, b"", "x")]);
    }
    // entries several levels below a symlink, reached through slashes in the base name (no directory
    // name of the package covers the link, so nothing is pre-created in its place)
    for (lbl, tgt) in [("abs", outside.clone()), ("rel", "../../../../../../outside-dir".to_string())] {
        for (depth, base) in [(1, "lnk/planted"), (2, "lnk/sub/planted"), (3, "lnk/sub/deeper/planted")] {
            add(&format!("symlink-then-file-deep-below:{lbl}:{depth}"), vec![hfile("/", "lnk", 0o120777, b"", &tgt), hfile("/", base, reg, b"planted deep below a symlink", "")]);
            add(&format!("symlink-then-dir-deep-below:{lbl}:{depth}"), vec![hfile("/opt/", "lnk", 0o120777, b"", &tgt), hfile("/opt/", &format!("{base}-dir"), 0o040700, b"", "")]);
        }
    }
    // entries whose DIRECTORY NAME lies one to three levels below a link to an existing outside
    // directory (directories created on demand must not be created through the link)
    for (lbl, tgt) in [("abs", outside.clone()), ("rel", "../../../../../../../outside-dir".to_string()), ("rel-sibling", "../../sibling".to_string())] {
        for (depth, dir) in [(1, "/a/lnk/"), (2, "/a/lnk/cache/"), (3, "/a/lnk/cache/v1/"), (4, "/a/lnk/sub/deeper/v2/")] {
            add(&format!("symlink-then-file-in-dirname-below:{lbl}:{depth}"), vec![hfile("/a/", "lnk", 0o120777, b"", &tgt), hfile(dir, "state", reg, b"planted in a directory below a symlink", "")]);
            add(&format!("symlink-then-dir-in-dirname-below:{lbl}:{depth}"), vec![hfile("/a/", "lnk", 0o120777, b"", &tgt), hfile(dir, "state-dir", 0o040700, b"", "")]);
        }
    }
    // links to siblings of the target whose names have the target's name as a string prefix
    for sib in ["target.previous", "target-old", "targetX", "target "] {
        for (lbl, tgt) in [("rel", format!("../../{sib}")), ("abs", format!("{j}/l1/l2/l3/l4/l5/{sib}"))] {
            add(&format!("symlink-to-prefix-sibling:{lbl}"), vec![hfile("/a/", "lnk", 0o120777, b"", &tgt), hfile("/a/lnk/", "state", reg, b"planted in a sibling of the target", ""), hfile("/a/lnk/sub/", "deeper", reg, b"planted deeper", "")]);
            add(&format!("symlink-to-prefix-sibling-basename:{lbl}"), vec![hfile("/a/", "lnk", 0o120777, b"", &tgt), hfile("/a/", "lnk/state", reg, b"planted through a slash in the base name", "")]);
        }
    }
    // a lone link to something that exists outside, with various permission bits on the link entry
    // (the bits of a link entry must never be applied to what it points to)
    for (lbl, tgt) in [("abs-file", format!("{outside}/secret")), ("abs-dir", outside.clone()), ("rel-canary", "../../canary.txt".to_string()), ("rel-dir", "../../sibling".to_string())] {
        for lmode in [0o120777u16, 0o120000, 0o124755, 0o120600] {
            add(&format!("symlink-to-existing-outside:{lbl}:{:o}", lmode & 0o7777), vec![hfile("/a/", "lnk", lmode, b"", &tgt), hfile("/a/", "zz-after", reg, b"an ordinary entry after the link", "")]);
        }
    }
    // a link to an outside directory followed by ANOTHER LINK below it (through the directory name and
    // through a slash in the base name), also under the name of something that exists out there
    for (lbl, tgt) in [("abs", outside.clone()), ("rel", "../../../../../../../outside-dir".to_string())] {
        for second in ["l2", "secret", "sub"] {
            add(&format!("symlink-then-symlink-below-dirname:{lbl}"), vec![hfile("/a/", "lnk", 0o120777, b"", &tgt), hfile("/a/lnk/", second, 0o120777, b"", "/etc/hostname-does-not-matter")]);
            add(&format!("symlink-then-symlink-below-basename:{lbl}"), vec![hfile("/a/", "lnk", 0o120777, b"", &tgt), hfile("/a/", &format!("lnk/{second}"), 0o120777, b"", "planted-link-target")]);
        }
    }
    // ordinary entries for a target directory that ALREADY EXISTS and holds links to the outside
    // (the harness plants them before extraction, see `pre_populate`)
    add("pre-populated-target", vec![hfile("/plain/conf.d/", "app.conf", reg, b"ordinary file", ""), hfile("/plain/", "readme", reg, b"ordinary file 2", ""), hfile("/other/", "x", reg, b"x", "")]);
    add("pre-populated-target", vec![hfile("/plain/", "conf.d", 0o040755, b"", ""), hfile("/plain/conf.d/", "app.conf", reg, b"ordinary file", "")]);
    // a symlink entry whose path is the extraction target itself, followed by ordinary entries
    for (dir, base) in [("/", ""), ("/", "."), ("/./", ""), ("", ""), ("/", "./"), ("//", "")] {
        for tgt in [outside.clone(), "sibling".to_string()] {
            add("symlink-replaces-target-dir", vec![hfile(dir, base, 0o120777, b"", &tgt), hfile("/", "after", reg, b"written after the target was replaced", ""), hfile("/", "after-dir", 0o040755, b"", "")]);
        }
    }
    add("directory-then-symlink-same-name", vec![hfile("/a/", "d", 0o040755, b"", ""), hfile("/a/", "d", 0o120777, b"", &outside), hfile("/a/d/", "f", reg, b"below replaced dir", "")]);
    add("symlink-chmod-through-link", vec![hfile("/a/", "lnk", 0o120777, b"", &format!("{outside}/secret")), hfile("/a/", "lnk", 0o100000, b"", "")]);
    // special file types
    for (name, ty) in [("fifo", 0o010000u16), ("char", 0o020000), ("block", 0o060000), ("socket", 0o140000), ("zero-type", 0), ("unknown-type", 0o110000)] {
        add(&format!("special-file:{name}"), vec![hfile("/dev/", "special", ty | 0o644, b"", "")]);
    }
    // cpio name disagrees with the header
    let (f1, c1) = hfile("/a/", "one", reg, b"content one", "");
    let (f2, c2) = hfile("/a/", "two", reg, b"content two", "");
    // headers that announce sizes nobody can allocate (64-bit size tag), with a few bytes in the archive
    // (only values whose allocation request is refused before the allocator is asked: an allocation failure
    // would abort this process, and memory in proportion is judged by C04 in worker processes)
    for huge in [u64::MAX, (isize::MAX as u64) + 1, u64::MAX - 7] {
        let (mut f, c) = hfile("/a/", "huge", reg, b"small", "");
        f.size = huge;
        let (f2, c2) = hfile("/a/", "next", reg, b"next file", "");
        out.push(Hostile { stripped: false, label: "announced-size-beyond-memory".into(), files: vec![f, f2], contents: vec![c, c2], names: vec![None; 2], long_sizes: true });
    }
    out.push(Hostile { stripped: false, label: "cpio-name-disagrees".into(), files: vec![f1.clone(), f2.clone()], contents: vec![c1.clone(), c2.clone()], names: vec![Some(b"./a/two".to_vec()), Some(b"./a/one".to_vec())], long_sizes: false });
    out.push(Hostile { stripped: false, label: "cpio-name-dotdot".into(), files: vec![f1, f2], contents: vec![c1, c2], names: vec![Some(b"./../../escaped-by-cpio-name".to_vec()), Some(format!("{outside}/abs-cpio-name").into_bytes())], long_sizes: false });
    // seeded combinations of the ingredients
    let dirs = ["/a/", "/a/b/", "/../", "/a/../../", "/a/lnk/", "/", "//", "/a/./", &format!("{outside}/")];
    let bases = ["f", "lnk", "../up", "x/y", "", ".", "..", "canary.txt", "secret"];
    let l1 = format!("{j}/l1");
    let links = [outside.as_str(), "../..", "../../canary.txt", l1.as_str(), ".", "lnk", ""];
    for k in 0..n_random {
        let n = 1 + rng.usize(4);
        let mut items = Vec::new();
        for _ in 0..n {
            let mode = [reg, 0o100755, 0o040755, 0o120777, 0o120777, 0o010644, 0o104755][rng.usize(7)];
            let content = if mode & 0o170000 == 0o100000 { format!("random content {k}").into_bytes() } else { Vec::new() };
            let link = if mode & 0o170000 == 0o120000 { links[rng.usize(links.len())] } else { "" };
            items.push(hfile(dirs[rng.usize(dirs.len())], bases[rng.usize(bases.len())], mode, &content, link));
        }
        let (files, contents): (Vec<HFile>, Vec<Vec<u8>>) = items.into_iter().unzip();
        let nn = files.len();
        out.push(Hostile { stripped: false, label: "random-combination".into(), files, contents, names: vec![None; nn], long_sizes: false });
    }
    // every case once more with index-addressed (stripped) archive entries
    let n = out.len();
    for i in 0..n {
        let h = &out[i];
        if h.names.iter().all(|x| x.is_none()) {
            let c = Hostile { stripped: true, label: h.label.clone(), files: h.files.clone(), contents: h.contents.clone(), names: h.names.clone(), long_sizes: h.long_sizes };
            out.push(c);
        }
    }
    out
}

fn hostile_package(h: &Hostile) -> Vec<u8> {
    let mut archive = Vec::new();
    for (i, f) in h.files.iter().enumerate() {
        if h.stripped {
            archive.extend(mcpio::enc_stripped(i as u32, &h.contents[i]));
        } else {
            let name = h.names[i].clone().unwrap_or_else(|| [b".".as_slice(), &f.path()].concat());
            archive.extend(mcpio::enc_newc(&name, f.mode as u32, i as u32 + 1, &h.contents[i]));
        }
    }
    archive.extend(mcpio::enc_trailer());
    package_with_files("hostile", &h.files, &archive, None, h.stripped || h.long_sizes)
}

/// built packages extracted by an UNPRIVILEGED user (uid 65534) in a child process: root is not
/// stopped by permission bits, so as root a read-only directory entry never gets in the way of the
/// entries below it; an ordinary user must get the same tree
fn unprivileged_phase(ctx: &Ctx, rep: &Report, base: &Path) {
    if unsafe { libc::geteuid() } != 0 {
        rep.note("not running as root: the unprivileged-user phase is the ordinary phase here");
        return;
    }
    let exe = std::env::current_exe().unwrap();
    let n: u64 = if ctx.is_dbg() { 0 } else { ctx.tier.pick(60, 1500) };
    par_for(ctx.threads, n, 1, |i| {
        let mut rng = Rng::for_case(ctx.seed, "C12-unpriv", i);
        let mut cfg = positive_cfg(&mut rng);
        if i % 10 == 3 {
            // many small files (the child runs with 48 file descriptors)
            for k in 0..(120 + rng.usize(200)) {
                let mut f = cfg.files.iter().find(|f| f.symlink.is_none() && f.mode.map(|m| m & 0o170000 == 0o100000).unwrap_or(true)).cloned().unwrap_or_else(|| FileCfg { dest: String::new(), content_kind: "text".into(), size: 3, content_seed: 1, mode: Some(0o100644), source_perm: 0o644, user: None, group: None, flags: vec![], caps: None, symlink: None, mtime: 1_500_000_000, verify: None });
                f.dest = format!("/opt/many/d{}/f{k}", k % 7);
                f.size = k % 5;
                cfg.files.push(f);
            }
        }
        let jroot = base.join(format!("u{i}"));
        let jail = make_jail(&jroot);
        let src = jroot.join("outside-dir").join("sources");
        let w = || json!({"kind": "positive-unprivileged", "cfg": cfg});
        let pkg = match guard(|| build(&cfg, &src)) {
            Ok(Ok(p)) => p,
            _ => {
                let _ = std::fs::remove_dir_all(&jroot);
                return;
            }
        };
        let pkgfile = jroot.join("outside-dir").join("package.rpm");
        if pkg.write_file(&pkgfile).is_err() {
            let _ = std::fs::remove_dir_all(&jroot);
            return;
        }
        // the user owns the jail (so that the target can be created) and can reach it
        let _ = std::process::Command::new("chown").arg("-R").arg("65534:65534").arg(&jroot).status();
        let mut up = jroot.parent();
        while let Some(d) = up {
            if d == Path::new("/") {
                break;
            }
            if let Ok(md) = std::fs::metadata(d) {
                use std::os::unix::fs::PermissionsExt;
                let m = md.permissions().mode();
                if m & 0o005 != 0o005 {
                    let _ = std::fs::set_permissions(d, std::fs::Permissions::from_mode(m | 0o005));
                }
            }
            up = d.parent();
        }
        let jail = Jail { before: snapshot(&jail.root, &jail.target), ..jail };
        rep.eval(1);
        let out = std::process::Command::new(&exe).arg("extract-as").arg("65534").arg(&pkgfile).arg(&jail.target).arg(["022", "077", "000", "027"][(i % 4) as usize]).output();
        let line = out.as_ref().map(|o| String::from_utf8_lossy(&o.stdout).lines().last().unwrap_or("").to_string()).unwrap_or_default();
        let diff = jail_diff(&jail);
        rep.nontrivial(crate::checks::c06::cfg_hash(&cfg) ^ 0x5a5a);
        if !diff.is_empty() {
            rep.violation("escape:positive-package:unprivileged", format!("extracting a built package as an unprivileged user changed the jail outside the target: {}", diff.join("; ")), w(), cfg.files.len() as u64);
        }
        if line == "OK" {
            rep.count("unprivileged.extracted", 1);
            for (k, what) in check_target(&cfg, &jail.target) {
                rep.violation(format!("{k}:unprivileged"), what, w(), cfg.files.len() as u64);
            }
        } else if let Some(e) = line.strip_prefix("ERR ") {
            rep.violation(format!("positive:extract-fails:unprivileged:{}", crate::util::par::normalize_msg(e)), format!("extracting a built package as an unprivileged user fails: {e}"), w(), cfg.files.len() as u64);
        } else if let Some(e) = line.strip_prefix("PANIC ") {
            rep.violation("panic:extract:unprivileged".to_string(), format!("extract panics: {e}"), w(), cfg.files.len() as u64);
        } else {
            rep.inconclusive(format!("unprivileged extraction helper reported {line:?} ({:?})", out.map(|o| o.status)));
        }
        let _ = std::process::Command::new("chmod").arg("-R").arg("u+rwx").arg(&jroot).status();
        let _ = std::fs::remove_dir_all(&jroot);
    });
}

/// `rpmverif extract-as <uid> <package file> <target>`: drop privileges, then parse and extract.
/// Prints one line: "OK", "ERR <message>" or "PANIC <message>".
pub fn extract_as_main(args: &[String]) -> i32 {
    let uid: u32 = args[0].parse().unwrap_or(65534);
    unsafe {
        if libc::setgroups(0, std::ptr::null()) != 0 || libc::setgid(uid) != 0 || libc::setuid(uid) != 0 {
            println!("SETUID-FAILED");
            return 3;
        }
        // few file descriptors: extraction must not keep one per file
        let lim = libc::rlimit { rlim_cur: 48, rlim_max: 48 };
        libc::setrlimit(libc::RLIMIT_NOFILE, &lim);
        libc::umask(args.get(3).and_then(|u| u32::from_str_radix(u, 8).ok()).unwrap_or(0o022) as libc::mode_t);
    }
    let r = guard(|| rpm::Package::open(&args[1]).and_then(|p| p.extract(&args[2])));
    match r {
        Ok(Ok(())) => println!("OK"),
        Ok(Err(e)) => println!("ERR {}", e.to_string().replace('\n', " ")),
        Err(p) => println!("PANIC {} @ {}", p.message.replace('\n', " "), p.site()),
    }
    0
}

fn run(ctx: &Ctx, rep: &Report) {
    let base = ctx.work_dir("jails");
    unprivileged_phase(ctx, rep, &base);
    // positive
    let npos: u64 = if ctx.is_dbg() { ctx.tier.pick(40, 400) } else { ctx.tier.pick(150, 6000) };
    par_for(ctx.threads, npos, 1, |i| {
        let mut rng = Rng::for_case(ctx.seed, "C12-pos", i);
        let cfg = positive_cfg(&mut rng);
        let jroot = base.join(format!("p{i}"));
        let jail = make_jail(&jroot);
        let src = jroot.join("outside-dir").join("sources");
        let w = || json!({"kind": "positive", "cfg": cfg});
        // sources live outside the jail snapshot's concern: build before the "before" snapshot is taken again
        let pkg = match guard(|| build(&cfg, &src)) {
            Ok(Ok(p)) => p,
            _ => {
                rep.count("positive.build_failed(judged elsewhere)", 1);
                let _ = std::fs::remove_dir_all(&jroot);
                return;
            }
        };
        let jail = Jail { before: snapshot(&jail.root, &jail.target), ..jail };
        rep.eval(1);
        let r = guard(|| pkg.extract(&jail.target));
        let diff = jail_diff(&jail);
        rep.nontrivial(crate::checks::c06::cfg_hash(&cfg));
        if !diff.is_empty() {
            rep.violation("escape:positive-package", format!("extracting a built package changed the jail outside the target: {}", diff.join("; ")), w(), cfg.files.len() as u64);
        }
        match r {
            Err(p) => rep.violation(format!("panic:extract:{}", p.site()), format!("extract panics on a built package: {}", p.message), w(), cfg.files.len() as u64),
            Ok(Err(e)) => rep.violation(format!("positive:extract-fails:{}", crate::util::par::normalize_msg(&e.to_string())), format!("extracting a built package fails: {e}"), w(), cfg.files.len() as u64),
            Ok(Ok(())) => {
                rep.count("positive.extracted", 1);
                rep.count("positive.entries_checked", cfg.files.len() as u64);
                for (k, what) in check_target(&cfg, &jail.target) {
                    rep.violation(k, what, w(), cfg.files.len() as u64);
                }
            }
        }
        if i < 2 {
            rep.sample(json!({"kind": "positive", "files": cfg.files.iter().map(|f| json!({"dest": f.dest, "mode": f.mode.map(|m| format!("{m:o}")), "symlink": f.symlink})).collect::<Vec<_>>()}));
        }
        // make everything removable again
        let _ = std::process::Command::new("chmod").arg("-R").arg("u+rwx").arg(&jroot).status();
        let _ = std::fs::remove_dir_all(&jroot);
    });
    // hostile
    let nrand = if ctx.is_dbg() { ctx.tier.pick(100, 2000) } else { ctx.tier.pick(400, 30_000) };
    // the case list depends on the jail path, so each case is generated for its own jail
    let probe_root = base.join("probe");
    let mut rng = Rng::for_case(ctx.seed, "C12-hostile", 0);
    let ncases = hostile_cases(&probe_root, &mut rng, nrand).len();
    par_for(ctx.threads, ncases as u64, 4, |i| {
        let jroot = base.join(format!("h{i}"));
        let mut rng = Rng::for_case(ctx.seed, "C12-hostile", 0);
        let cases = hostile_cases(&jroot, &mut rng, nrand);
        let h = &cases[i as usize];
        let bytes = hostile_package(h);
        let w = || json!({"kind": "hostile", "label": h.label, "archive": if h.stripped { "stripped (index-addressed)" } else { "newc (name-addressed)" }, "index": i, "entries": h.files.iter().map(|f| json!({"dir": String::from_utf8_lossy(&f.dir), "base": String::from_utf8_lossy(&f.base), "mode": format!("{:o}", f.mode), "linkto": String::from_utf8_lossy(&f.linkto)})).collect::<Vec<_>>()});
        let pkg = match guard(|| Package::parse(&mut &bytes[..])) {
            Ok(Ok(p)) => p,
            _ => {
                rep.count("hostile.not_parsed", 1);
                return;
            }
        };
        let jail = make_jail(&jroot);
        rep.eval(1);
        // the destination is handed over in its canonical spelling, in a spelling with "." and ".."
        // components, or through a symbolic link to its parent directory
        let spelled: PathBuf = match i % 3 {
            0 => jail.target.clone(),
            1 => PathBuf::from(format!("{}/./canary-dir/../target", jail.target.parent().unwrap().display())),
            _ => jail.root.join("alias").join("target"),
        };
        rep.count(["hostile.destination.canonical", "hostile.destination.dot-dotdot", "hostile.destination.through-symlink"][(i % 3) as usize], 1);
        if h.label.starts_with("pre-populated-target") {
            // the target exists before extraction and its first-level names are links to the outside
            let _ = std::fs::create_dir_all(&jail.target);
            for (name, to) in [("plain", jail.root.join("outside-dir")), ("other", jail.root.join("outside-dir").join("sub"))] {
                let _ = std::os::unix::fs::symlink(&to, jail.target.join(name));
            }
        }
        let r = guard(|| pkg.extract(&spelled));
        let diff = jail_diff(&jail);
        rep.nontrivial(crate::util::rng::hash_bytes(&bytes) ^ i);
        rep.count(&format!("hostile.{}", match &r {
            Ok(Ok(())) => "ok",
            Ok(Err(_)) => "err",
            Err(_) => "panic",
        }), 1);
        rep.count(&format!("hostile.family.{}", h.label.split(':').next().unwrap_or("")), 1);
        rep.count(if h.stripped { "hostile.archive.stripped" } else { "hostile.archive.newc" }, 1);
        if !diff.is_empty() {
            rep.violation(format!("escape:{}", h.label), format!("extraction changed the jail outside the target: {}", diff.join("; ")), w(), h.files.len() as u64);
        }
        if let Err(p) = r {
            rep.violation(format!("panic:{}:{}", h.label.split(':').next().unwrap_or(""), p.site()), format!("extract panics on a hostile package ({}): {}", h.label, p.message), w(), h.files.len() as u64);
        }
        if i < 2 {
            rep.sample(w());
        }
        let _ = std::process::Command::new("chmod").arg("-R").arg("u+rwx").arg(&jroot).status();
        let _ = std::fs::remove_dir_all(&jroot);
    });
    let _ = std::fs::remove_dir_all(&base);
}

fn replay(ctx: &Ctx, w: &serde_json::Value, rep: &Report) {
    let base = ctx.work_dir("replay");
    if w["kind"].as_str() == Some("positive") {
        if let Ok(cfg) = serde_json::from_value::<BuildCfg>(w["cfg"].clone()) {
            let jroot = base.join("p");
            let jail = make_jail(&jroot);
            if let Ok(pkg) = build(&cfg, &jroot.join("outside-dir").join("sources")) {
                let jail = Jail { before: snapshot(&jail.root, &jail.target), ..jail };
                let r = guard(|| pkg.extract(&jail.target));
                println!("monitor: extract -> {:?}; jail diff: {:?}", r.as_ref().map(|r| r.as_ref().map_err(|e| e.to_string())).map_err(|p| p.message.clone()), jail_diff(&jail));
                if let Ok(Ok(())) = r {
                    for (k, what) in check_target(&cfg, &jail.target) {
                        println!("  {k}: {what}");
                        rep.violation(k, what, w.clone(), 0);
                    }
                }
            }
        }
    } else {
        println!("hostile witness: {}", serde_json::to_string_pretty(w).unwrap_or_default());
        println!("(hostile cases are enumerated deterministically: re-run `bin/check C12 quick`)");
    }
    let _ = std::fs::remove_dir_all(&base);
}
