//! C15 — textual forms of EVR, NEVRA and compression type round-trip.

use super::CheckDef;
use crate::util::par::{guard, par_for};
use crate::util::report::{Ctx, Meta, Report};
use crate::util::rng::{hash_bytes, Rng};
use rpm::{CompressionType, Evr, Nevra};
use serde_json::json;
use std::collections::BTreeMap;
use std::str::FromStr;

pub fn def() -> CheckDef {
    CheckDef { id: "C15", run, meta, dbg: true, replay: Some(replay) }
}

fn meta(_ctx: &Ctx) -> Meta {
    Meta {
        level: "exploration",
        rule: "bounded-exhaustive component tuples (names over {a,1,.,-,_} up to length 3 starting alphanumeric; epoch in {\"\",0,1,12,2^31-1,2^31,2^32-1}; version and release non-empty over {a,1,.,~,^} up to length 2; arch in {x,x86_64,noarch,a1,\"\"}; release also \"\") + seeded random tuples with components up to length 12 + the NEVRAs of the repository's asset packages: format with Display / as_normalized_form / nvra, parse again, compare component-wise with the tuple itself; every CompressionType through Display->FromStr; no-panic on all strings up to length 5 over {-,.,:,a,é} and on random text. The compression-type round trip is repeated in builds of the library with three other cargo feature sets (none, gzip only, the crate's default set; featprobe/). Runs in release and (random parts reduced) in the overflow-checking verifdbg profile. distinct_nontrivial = distinct tuples/strings".into(),
        assumptions: vec!["real-package component constraints (rpm's own): name has no ':', version/release have no '-' or ':', arch has no '-', '.' or ':', epoch is digits or empty; name and version non-empty (release and arch may be empty text)".into()],
        floor_distinct: 1000,
    }
}

fn enumerate(alpha: &[&str], maxlen: usize) -> Vec<String> {
    let mut out = vec![];
    let mut frontier = vec![String::new()];
    for _ in 0..maxlen {
        let mut next = Vec::new();
        for s in &frontier {
            for a in alpha {
                next.push(format!("{s}{a}"));
            }
        }
        out.extend(next.iter().cloned());
        frontier = next;
    }
    out
}

type Tuple<'a> = (&'a str, &'a str, &'a str, &'a str, &'a str);

fn judge_nevra(t: Tuple) -> Option<(String, String)> {
    let (n, e, v, r, a) = t;
    let x = Nevra::new(n, e, v, r, a);
    let text = x.to_string();
    let y = Nevra::parse(&text);
    if y.values() != (n, e, v, r, a) {
        let which = [("name", y.name() != n), ("epoch", y.epoch() != e), ("version", y.version() != v), ("release", y.release() != r), ("arch", y.arch() != a)]
            .iter()
            .filter(|(_, bad)| *bad)
            .map(|(k, _)| *k)
            .collect::<Vec<_>>()
            .join("+");
        return Some((format!("nevra-roundtrip:{which}"), format!("Nevra{t:?} formats as {text:?} which parses as {:?}", y.values())));
    }
    if y != x || x != y {
        return Some(("nevra-roundtrip:not-equal".into(), format!("Nevra{t:?} -> {text:?} parses to an unequal value (in one direction of == at least)")));
    }
    let norm = x.as_normalized_form();
    let e0 = if e.is_empty() { "0" } else { e };
    if norm != format!("{n}-{e0}:{v}-{r}.{a}") {
        return Some(("nevra-normalized-form".into(), format!("normalised form of {t:?} is {norm:?}")));
    }
    let z = Nevra::parse(&norm);
    if z.values() != (n, e0, v, r, a) {
        return Some(("nevra-normalized-roundtrip".into(), format!("normalised form {norm:?} parses as {:?}", z.values())));
    }
    // "formatting and parsing again gives back an equal value": in both directions of ==
    if z != x || x != z {
        return Some(("nevra-normalized-roundtrip:not-equal".into(), format!("normalised form {norm:?} parses to a value that is not equal to Nevra{t:?} (in one direction of == at least)")));
    }
    if x.nvra() != format!("{n}-{v}-{r}.{a}") {
        return Some(("nevra-nvra".into(), format!("nvra of {t:?} is {:?}", x.nvra())));
    }
    None
}

fn judge_evr(e: &str, v: &str, r: &str) -> Option<(String, String)> {
    let x = Evr::new(e, v, r);
    let text = x.to_string();
    let y = Evr::parse(&text);
    if y.values() != (e, v, r) || y != x || x != y {
        return Some(("evr-roundtrip".into(), format!("Evr({e:?},{v:?},{r:?}) formats as {text:?} which parses as {:?}", y.values())));
    }
    let norm = x.as_normalized_form();
    let e0 = if e.is_empty() { "0" } else { e };
    if norm != format!("{e0}:{v}-{r}") {
        return Some(("evr-normalized-form".into(), format!("normalised form is {norm:?}")));
    }
    let z = Evr::parse(&norm);
    if z.values() != (e0, v, r) || z != x || x != z {
        return Some(("evr-normalized-roundtrip".into(), format!("normalised form {norm:?} parses as {:?}", z.values())));
    }
    None
}

fn rand_comp(r: &mut Rng, alpha: &[char], min: usize, max: usize, first_alnum: bool) -> String {
    let n = min + r.usize(max - min + 1);
    let mut s = String::new();
    for i in 0..n {
        let c = if i == 0 && first_alnum { *r.pick(&['a', 'Z', '0', '7', 'q']) } else { *r.pick(alpha) };
        s.push(c);
    }
    s
}

fn run(ctx: &Ctx, rep: &Report) {
    let names: Vec<String> = enumerate(&["a", "1", ".", "-", "_"], 3).into_iter().filter(|n| n.as_bytes()[0].is_ascii_alphanumeric()).collect();
    let comps = enumerate(&["a", "1", ".", "~", "^"], 2);
    // releases: the same, plus the empty release (a tag every package has, but which may be empty text)
    let mut releases = comps.clone();
    releases.push(String::new());
    let epochs = ["", "0", "1", "10", "12", "100", "2147483647", "2147483648", "4294967290", "4294967295"];
    let arches = ["x", "x86_64", "noarch", "a1", "", "ppc64", "sh4", "mips64", "ia64", "fc38", "el7"];
    rep.count("names", names.len() as u64);
    rep.count("version_release_components", comps.len() as u64);

    // EVRs (complete)
    let mut local = BTreeMap::new();
    for e in epochs {
        for v in &comps {
            for r in &releases {
                rep.eval(1);
                rep.nontrivial(hash_bytes(format!("E|{e}|{v}|{r}").as_bytes()));
                *local.entry("evr_tuples".to_string()).or_insert(0u64) += 1;
                match guard(|| judge_evr(e, v, r)) {
                    Ok(None) => {}
                    Ok(Some((k, w))) => rep.violation(k, w, json!({"kind":"evr","e":e,"v":v,"r":r}), (e.len() + v.len() + r.len()) as u64),
                    Err(p) => rep.violation(format!("panic:{}", p.site()), p.message, json!({"kind":"evr","e":e,"v":v,"r":r}), 0),
                }
            }
        }
    }
    rep.counts(&local);

    // NEVRAs (complete over the product)
    par_for(ctx.threads, names.len() as u64, 1, |i| {
        let n = &names[i as usize];
        let mut cnt = 0u64;
        let mut hs = Vec::new();
        for e in epochs {
            for v in &comps {
                for r in &releases {
                    for a in arches {
                        cnt += 1;
                        let t = (n.as_str(), e, v.as_str(), r.as_str(), a);
                        match guard(|| judge_nevra(t)) {
                            Ok(None) => {}
                            Ok(Some((k, w))) => rep.violation(k, w, json!({"kind":"nevra","n":n,"e":e,"v":v,"r":r,"a":a}), (n.len() + e.len() + v.len() + r.len() + a.len()) as u64),
                            Err(p) => rep.violation(format!("panic:{}", p.site()), p.message, json!({"kind":"nevra","n":n,"e":e,"v":v,"r":r,"a":a}), 0),
                        }
                        if cnt % 64 == 0 {
                            hs.push(hash_bytes(format!("N|{n}|{e}|{v}|{r}|{a}").as_bytes()));
                        }
                    }
                }
            }
        }
        rep.eval(cnt);
        rep.count("nevra_tuples", cnt);
        rep.nontrivial_many(hs);
    });
    rep.set_exhaustive(true);

    // random longer tuples
    let nrand: u64 = ctx.tier.pick(100_000, 60_000_000) / if ctx.is_dbg() { 20 } else { 1 };
    let chunk = 2000u64;
    let name_alpha = ['a', 'B', 'z', '0', '9', '.', '-', '_', '+', 'é'];
    let ver_alpha = ['a', 'Z', '0', '1', '9', '.', '~', '^', '_', '+'];
    let arch_alpha = ['a', 'x', '8', '6', '_', '4'];
    par_for(ctx.threads, nrand / chunk, 1, |c| {
        let mut rng = Rng::for_case(ctx.seed, "C15-random", c);
        let mut hs = Vec::new();
        for _ in 0..chunk {
            let n = rand_comp(&mut rng, &name_alpha, 1, 12, true);
            let e = match rng.below(4) {
                0 => String::new(),
                1 => "0".to_string(),
                2 => (*rng.pick(&[i32::MAX as u64 - 1, i32::MAX as u64, i32::MAX as u64 + 1, u32::MAX as u64 - 1, u32::MAX as u64, 3_000_000_000])).to_string(),
                _ => rng.below(100000).to_string(),
            };
            let v = rand_comp(&mut rng, &ver_alpha, 1, 12, false);
            let r = rand_comp(&mut rng, &ver_alpha, 1, 12, false);
            let a = rand_comp(&mut rng, &arch_alpha, 1, 8, false);
            let t = (n.as_str(), e.as_str(), v.as_str(), r.as_str(), a.as_str());
            match guard(|| judge_nevra(t).or_else(|| judge_evr(&e, &v, &r))) {
                Ok(None) => {}
                Ok(Some((k, w))) => rep.violation(k, w, json!({"kind":"nevra","n":n,"e":e,"v":v,"r":r,"a":a}), (n.len() + e.len() + v.len() + r.len() + a.len()) as u64),
                Err(p) => rep.violation(format!("panic:{}", p.site()), p.message, json!({"kind":"nevra","n":n,"e":e,"v":v,"r":r,"a":a}), 0),
            }
            if c < 100 {
                hs.push(hash_bytes(format!("R|{n}|{e}|{v}|{r}|{a}").as_bytes()));
            }
        }
        rep.nontrivial_many(hs);
    });
    rep.eval(nrand);
    rep.count("random_tuples", nrand);

    // the asset packages' own NEVRAs
    for rel in [
        "test_assets/389-ds-base-devel-1.3.8.4-15.el7.x86_64.rpm",
        "test_assets/freesrp-udev-0.3.0-1.25.x86_64.rpm",
        "test_assets/ima_signed.rpm",
        "test_assets/rpm-sign-4.15.1-1.fc31.x86_64.rpm",
        "test_assets/fixture_packages/rpm-empty-0-0.x86_64.rpm",
        "test_assets/fixture_packages/rpm-empty-0-0.src.rpm",
    ] {
        match rpm::PackageMetadata::open(ctx.asset(rel)) {
            Ok(m) => {
                let n = m.get_name().unwrap_or("").to_string();
                let e = m.get_epoch().map(|e| e.to_string()).unwrap_or_default();
                let v = m.get_version().unwrap_or("").to_string();
                let r = m.get_release().unwrap_or("").to_string();
                let a = m.get_arch().unwrap_or("").to_string();
                rep.eval(1);
                rep.count("asset_nevras", 1);
                rep.nontrivial(hash_bytes(format!("A|{n}|{e}|{v}|{r}|{a}").as_bytes()));
                rep.sample(json!({"asset": rel, "nevra": Nevra::new(n.as_str(), e.as_str(), v.as_str(), r.as_str(), a.as_str()).to_string()}));
                match guard(|| judge_nevra((&n, &e, &v, &r, &a))) {
                    Ok(None) => {}
                    Ok(Some((k, w))) => rep.violation(k, w, json!({"kind":"nevra","n":n,"e":e,"v":v,"r":r,"a":a}), (n.len() + v.len() + r.len()) as u64),
                    Err(p) => rep.violation(format!("panic:{}", p.site()), p.message, json!({"kind":"nevra","n":n}), 0),
                }
            }
            Err(e) => rep.note(format!("asset {rel} not readable: {e}")),
        }
    }

    // compression types
    for ct in [CompressionType::None, CompressionType::Gzip, CompressionType::Zstd, CompressionType::Xz, CompressionType::Bzip2] {
        rep.eval(1);
        rep.nontrivial(hash_bytes(format!("C|{ct}").as_bytes()));
        let text = ct.to_string();
        match guard(|| CompressionType::from_str(&text)) {
            Ok(Ok(back)) if back == ct => rep.count("compression_type_roundtrips", 1),
            Ok(Ok(back)) => rep.violation(format!("compression-type:{text}:wrong"), format!("{text:?} parses back as {back:?}"), json!({"kind":"compression","text":text}), 1),
            Ok(Err(e)) => rep.violation(format!("compression-type:{text}:not-parsed"), format!("CompressionType::{ct:?} displays as {text:?} which does not parse: {e}"), json!({"kind":"compression","text":text}), 1),
            Err(p) => rep.violation(format!("panic:{}", p.site()), p.message, json!({"kind":"compression","text":text}), 1),
        }
    }

    // no panic on arbitrary text
    let hostile = {
        let mut v = vec![String::new()];
        v.extend(enumerate(&["-", ".", ":", "a", "é"], 5));
        v
    };
    let nh = hostile.len();
    par_for(ctx.threads, nh as u64, 64, |i| {
        let s = &hostile[i as usize];
        let r = guard(|| {
            let _ = Nevra::parse(s).to_string();
            let _ = Nevra::parse(s).as_normalized_form();
            let _ = Evr::parse(s).to_string();
            let _ = Evr::parse(s).as_normalized_form();
            let _ = CompressionType::from_str(s);
            let _ = rpm::rpm_evr_compare(s, "1:1-1");
        });
        if let Err(p) = r {
            rep.violation(format!("panic:{}", p.site()), format!("parsing {s:?} panics: {}", p.message), json!({"kind":"text","text":s}), s.len() as u64);
        }
    });
    rep.eval(nh as u64);
    rep.count("hostile_texts_enumerated", nh as u64);
    let nrt: u64 = ctx.tier.pick(200_000, 60_000_000) / if ctx.is_dbg() { 20 } else { 1 };
    par_for(ctx.threads, nrt / chunk, 1, |c| {
        let mut rng = Rng::for_case(ctx.seed, "C15-text", c);
        for _ in 0..chunk {
            let n = rng.usize(24);
            let mut s = String::new();
            for _ in 0..n {
                s.push(*rng.pick(&['-', '.', ':', 'a', '1', 'é', '\u{1F600}', ' ', '~', '^', '\n', '0', 'x', '_']));
            }
            let r = guard(|| {
                let _ = Nevra::parse(&s).to_string();
                let _ = Evr::parse(&s).as_normalized_form();
                let _ = CompressionType::from_str(&s);
            });
            if let Err(p) = r {
                rep.violation(format!("panic:{}", p.site()), format!("parsing {s:?} panics: {}", p.message), json!({"kind":"text","text":s}), s.len() as u64);
            }
        }
    });
    rep.eval(nrt);
    rep.count("random_texts", nrt);
    rep.sample(json!({"tuple": ["a-1", "", "1.0", "1.a", "x86_64"], "formatted": Nevra::new("a-1", "", "1.0", "1.a", "x86_64").to_string()}));
    feature_sets(ctx, rep);
}

/// the compression-type round trip again in builds of the library with other cargo feature sets
/// (no optional feature at all, gzip only, the default set): the type and its name exist in all of them
fn feature_sets(ctx: &Ctx, rep: &Report) {
    for o in crate::util::probe::observations(ctx, rep) {
        if o.fields.first().map(|s| s.as_str()) != Some("roundtrip") || o.fields.len() < 4 {
            continue;
        }
        rep.eval(1);
        rep.nontrivial(hash_bytes(format!("probe|{}|{}", o.set, o.fields[1]).as_bytes()));
        rep.count(&format!("compression_type_roundtrips.{}", o.set), 1);
        if o.fields[3] != "ok" {
            rep.violation(
                format!("compression-type-roundtrip:{}", o.fields[1]),
                format!("built with feature set {}: CompressionType::{} prints {:?}, and parsing that gives {}", o.set, o.fields[1], o.fields[2], o.fields[3]),
                json!({"kind": "feature-probe", "set": o.set, "observation": o.fields.join(" ")}),
                0,
            );
        }
    }
}

fn replay(_ctx: &Ctx, w: &serde_json::Value, rep: &Report) {
    let g = |k: &str| w[k].as_str().unwrap_or("").to_string();
    let r = match w["kind"].as_str().unwrap_or("") {
        "evr" => guard(|| judge_evr(&g("e"), &g("v"), &g("r"))),
        "nevra" => guard(|| judge_nevra((&g("n"), &g("e"), &g("v"), &g("r"), &g("a")))),
        "compression" => guard(|| match CompressionType::from_str(&g("text")) {
            Ok(_) => None,
            Err(e) => Some(("compression-type".to_string(), e.to_string())),
        }),
        _ => guard(|| {
            let _ = Nevra::parse(&g("text")).to_string();
            None
        }),
    };
    println!("monitor: {:?}", r.as_ref().map_err(|p| p.message.clone()));
    match r {
        Ok(Some((k, what))) => rep.violation(k, what, w.clone(), 0),
        Err(p) => rep.violation(format!("panic:{}", p.site()), p.message, w.clone(), 0),
        _ => {}
    }
}
