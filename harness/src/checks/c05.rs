//! C05 — metadata accessors return exactly what the header stores (independent decoder vs accessors).

use super::CheckDef;
use crate::gen::build::ASSETS;
use crate::gen::hdr::*;
use crate::model::codec::*;
use crate::util::par::{guard, par_for};
use crate::util::report::{Ctx, Meta, Report};
use crate::util::rng::{hash_bytes, Rng};
use num_traits::FromPrimitive;
use rpm::{IndexSignatureTag, IndexTag, PackageMetadata};
use serde_json::{json, Value};
use std::collections::BTreeMap;

pub fn def() -> CheckDef {
    CheckDef { id: "C05", run, meta, dbg: false, replay: Some(replay) }
}

fn meta(_ctx: &Ctx) -> Meta {
    Meta {
        level: "exploration",
        rule: "well-formed headers from the harness encoder restricted to the tags the accessors read: each tag present with its right type / a wrong type / absent, counts 0..n, 1..4-locale i18n strings, 32- and 64-bit size variants alone and together, out-of-range directory indexes, every way of missing members of a tag triple, non-UTF-8 and empty strings; plus the six asset packages. Every accessor (string/i18n/integer getters, installed size, compressor, digest algorithm, file paths, file entries, the eight dependency lists, changelog, eight scriptlets, source-package flag) and the generic typed getters on every known tag are compared with the value an independent decoding of the same bytes gives, including the required error kinds. distinct_nontrivial = distinct headers on which at least one accessor had a definite expected value".into(),
        assumptions: vec!["accessor -> tag table in this file follows the RPM tag documentation; don't-care classes: duplicate tags, unequal per-file array lengths (prefix rule), path components with '/', string-array vs i18n confusion, unknown digest algorithm, plain-string interpreter".into()],
        floor_distinct: 500,
    }
}

// ---------------------------------------------------------------------------------------------
// model side

#[derive(Debug, Clone)]
enum Exp {
    Ok(Value),
    /// must be an error; the listed kinds are acceptable (empty = any error)
    Err(&'static [&'static str]),
    /// result must be Ok(prefix of this list) or an error
    Prefix(Vec<Value>),
    DontCare,
}

struct Model<'a> {
    bytes: &'a [u8],
    h: &'a RawHeader,
    sig: &'a RawHeader,
}

enum Look {
    Absent,
    Dup,
    Val(Val),
    Undecodable,
}

impl Model<'_> {
    fn look_in(&self, h: &RawHeader, t: u32) -> Look {
        let all = h.find_all(t);
        match all.len() {
            0 => Look::Absent,
            1 => match decode_entry(h.store(self.bytes), all[0]) {
                Ok(v) => Look::Val(v),
                Err(_) => Look::Undecodable,
            },
            _ => Look::Dup,
        }
    }
    fn look(&self, t: u32) -> Look {
        self.look_in(self.h, t)
    }
}

const NOTFOUND: &[&str] = &["TagNotFound"];
const WRONGTYPE: &[&str] = &["UnexpectedTagDataType"];
const ANYERR: &[&str] = &[];
/// for multi-tag accessors: which member is reported first is not settled
const MEMBER: &[&str] = &["TagNotFound", "UnexpectedTagDataType"];

fn s(b: &[u8]) -> Value {
    json!(lossy(b))
}

fn exp_string(m: &Model, t: u32) -> Exp {
    match m.look(t) {
        Look::Absent => Exp::Err(NOTFOUND),
        Look::Val(Val::Str(b)) => Exp::Ok(s(&b)),
        Look::Val(_) => Exp::Err(WRONGTYPE),
        _ => Exp::DontCare,
    }
}

fn exp_i18n(m: &Model, t: u32) -> Exp {
    match m.look(t) {
        Look::Absent => Exp::Err(NOTFOUND),
        Look::Val(Val::I18n(v)) => match v.first() {
            Some(b) => Exp::Ok(s(b)),
            None => Exp::Err(ANYERR), // no string stored: never a made-up value
        },
        Look::Val(Val::StrArray(_)) => Exp::DontCare,
        Look::Val(_) => Exp::Err(WRONGTYPE),
        _ => Exp::DontCare,
    }
}

fn exp_u32(m: &Model, t: u32) -> Exp {
    match m.look(t) {
        Look::Absent => Exp::Err(NOTFOUND),
        Look::Val(Val::Int32(v)) => match v.first() {
            Some(x) => Exp::Ok(json!(x)),
            None => Exp::Err(ANYERR),
        },
        Look::Val(_) => Exp::Err(WRONGTYPE),
        _ => Exp::DontCare,
    }
}

fn exp_installed_size(m: &Model) -> Exp {
    match m.look(tag::LONGSIZE) {
        Look::Val(Val::Int64(v)) if !v.is_empty() => return Exp::Ok(json!(v[0])),
        Look::Dup | Look::Undecodable => return Exp::DontCare,
        _ => {}
    }
    match m.look(tag::SIZE) {
        Look::Val(Val::Int32(v)) if !v.is_empty() => Exp::Ok(json!(v[0] as u64)),
        Look::Dup | Look::Undecodable => Exp::DontCare,
        _ => Exp::Err(ANYERR),
    }
}

fn exp_compressor(m: &Model) -> Exp {
    match m.look(tag::PAYLOADCOMPRESSOR) {
        Look::Absent => Exp::Ok(json!("None")),
        Look::Val(Val::Str(b)) => match b.as_slice() {
            b"gzip" => Exp::Ok(json!("Gzip")),
            b"zstd" => Exp::Ok(json!("Zstd")),
            b"xz" => Exp::Ok(json!("Xz")),
            b"bzip2" => Exp::Ok(json!("Bzip2")),
            b"none" => Exp::DontCare,
            _ => Exp::Err(&["UnknownCompressorType"]),
        },
        Look::Val(_) => Exp::Err(WRONGTYPE),
        _ => Exp::DontCare,
    }
}

fn algo_name(a: u32) -> Option<&'static str> {
    Some(match a {
        1 => "Md5",
        8 => "Sha2_256",
        9 => "Sha2_384",
        10 => "Sha2_512",
        11 => "Sha2_224",
        12 => "Sha3_256",
        14 => "Sha3_512",
        _ => return None,
    })
}

fn exp_digest_algo(m: &Model) -> Exp {
    match m.look(tag::FILEDIGESTALGO) {
        Look::Absent => Exp::Err(NOTFOUND),
        Look::Val(Val::Int32(v)) => match v.first() {
            Some(a) => match algo_name(*a) {
                Some(n) => Exp::Ok(json!(n)),
                None => Exp::Err(&["InvalidTagValueEnumVariant"]),
            },
            None => Exp::Err(ANYERR),
        },
        Look::Val(_) => Exp::Err(WRONGTYPE),
        _ => Exp::DontCare,
    }
}

/// a triple of (string array, u32 array, string array)-like tags zipped in order
fn exp_zip(m: &Model, tags: &[(u32, u32)], make: &dyn Fn(&[&Val], usize) -> Value) -> Exp {
    let looks: Vec<Look> = tags.iter().map(|(t, _)| m.look(*t)).collect();
    if looks.iter().any(|l| matches!(l, Look::Dup | Look::Undecodable)) {
        return Exp::DontCare;
    }
    if looks.iter().all(|l| matches!(l, Look::Absent)) {
        return Exp::Ok(json!([]));
    }
    let mut vals: Vec<&Val> = Vec::new();
    for (l, (_, typ)) in looks.iter().zip(tags) {
        match l {
            Look::Absent => return Exp::Err(MEMBER),
            Look::Val(v) => {
                // string-array slots accept the i18n type as well (identical encoding): don't care
                if v.typ() != *typ {
                    if *typ == 8 && v.typ() == 9 {
                        return Exp::DontCare;
                    }
                    return Exp::Err(MEMBER);
                }
                vals.push(v);
            }
            _ => unreachable!(),
        }
    }
    let lens: Vec<usize> = vals.iter().map(|v| v.count() as usize).collect();
    let n = *lens.iter().min().unwrap();
    let list: Vec<Value> = (0..n).map(|i| make(&vals, i)).collect();
    if lens.iter().all(|l| *l == n) {
        Exp::Ok(Value::Array(list))
    } else {
        Exp::Prefix(list)
    }
}

fn str_at(v: &Val, i: usize) -> Value {
    match v {
        Val::StrArray(x) | Val::I18n(x) => s(&x[i]),
        _ => Value::Null,
    }
}
fn u32_at(v: &Val, i: usize) -> u32 {
    match v {
        Val::Int32(x) => x[i],
        _ => 0,
    }
}

fn exp_deps(m: &Model, n: u32, f: u32, v: u32) -> Exp {
    exp_zip(m, &[(n, 8), (f, 4), (v, 8)], &|vals, i| json!({"name": str_at(vals[0], i), "flags": u32_at(vals[1], i), "version": str_at(vals[2], i)}))
}

fn exp_changelog(m: &Model) -> Exp {
    exp_zip(m, &[(tag::CHANGELOGNAME, 8), (tag::CHANGELOGTIME, 4), (tag::CHANGELOGTEXT, 8)], &|vals, i| json!({"name": str_at(vals[0], i), "timestamp": u32_at(vals[1], i) as u64, "description": str_at(vals[2], i)}))
}

fn well_formed_components(dirs: &[Vec<u8>], bases: &[Vec<u8>]) -> bool {
    // absolute directory names, or the empty one that source packages carry (DIRNAMES = [""])
    dirs.iter().all(|d| d.is_empty() || (d.ends_with(b"/") && d.starts_with(b"/"))) && bases.iter().all(|b| !b.contains(&b'/'))
}

fn exp_file_paths(m: &Model) -> Exp {
    let (b, i, d) = (m.look(tag::BASENAMES), m.look(tag::DIRINDEXES), m.look(tag::DIRNAMES));
    for l in [&b, &i, &d] {
        if matches!(l, Look::Dup | Look::Undecodable) {
            return Exp::DontCare;
        }
    }
    if matches!((&b, &i, &d), (Look::Absent, Look::Absent, Look::Absent)) {
        return Exp::Ok(json!([]));
    }
    let (bases, idx, dirs) = match (b, i, d) {
        (Look::Val(Val::StrArray(b)), Look::Val(Val::Int32(i)), Look::Val(Val::StrArray(d))) => (b, i, d),
        (Look::Val(Val::I18n(_)), _, _) | (_, _, Look::Val(Val::I18n(_))) => return Exp::DontCare,
        (Look::Absent, _, _) | (_, Look::Absent, _) | (_, _, Look::Absent) => return Exp::Err(MEMBER),
        _ => return Exp::Err(MEMBER),
    };
    if !well_formed_components(&dirs, &bases) {
        return Exp::DontCare;
    }
    let n = bases.len().min(idx.len());
    let mut list = Vec::new();
    for k in 0..n {
        match dirs.get(idx[k] as usize) {
            Some(dir) => list.push(json!(format!("{}{}", lossy(dir), lossy(&bases[k])))),
            None => return Exp::Err(&["InvalidTagIndex"]),
        }
    }
    if bases.len() == idx.len() {
        Exp::Ok(Value::Array(list))
    } else {
        Exp::Prefix(list)
    }
}

fn digest_len_ok(algo: &str, len: usize) -> bool {
    matches!((algo, len), ("Md5", 32) | ("Sha2_256", 64) | ("Sha2_224", 60) | ("Sha2_384", 96) | ("Sha2_512", 128))
}

fn exp_file_entries(m: &Model) -> Exp {
    let modes = m.look(tag::FILEMODES);
    let file_tags = [tag::FILEUSERNAME, tag::FILEGROUPNAME, tag::FILEDIGESTS, tag::FILEMTIMES, tag::FILESIZES, tag::LONGFILESIZES, tag::FILEFLAGS, tag::FILELINKTOS, tag::FILECAPS, tag::BASENAMES, tag::DIRNAMES, tag::DIRINDEXES];
    if let Look::Absent = modes {
        // without FILEMODES the library documents "no files"; with other per-file tags present the
        // statement does not settle what to return
        return if file_tags.iter().all(|t| matches!(m.look(*t), Look::Absent)) && matches!(m.look_in(m.sig, tag::SIG_FILESIGNATURES), Look::Absent) { Exp::Ok(json!([])) } else { Exp::DontCare };
    }
    let modes = match modes {
        Look::Val(Val::Int16(v)) => v,
        Look::Val(_) => return Exp::Err(MEMBER),
        _ => return Exp::DontCare,
    };
    macro_rules! req {
        ($t:expr, $pat:pat => $out:expr) => {
            match m.look($t) {
                Look::Val($pat) => $out,
                Look::Val(Val::I18n(_)) => return Exp::DontCare,
                Look::Absent => return Exp::Err(MEMBER),
                Look::Val(_) => return Exp::Err(MEMBER),
                _ => return Exp::DontCare,
            }
        };
    }
    let users = req!(tag::FILEUSERNAME, Val::StrArray(v) => v);
    let groups = req!(tag::FILEGROUPNAME, Val::StrArray(v) => v);
    let digests = req!(tag::FILEDIGESTS, Val::StrArray(v) => v);
    let mtimes = req!(tag::FILEMTIMES, Val::Int32(v) => v);
    let flags = req!(tag::FILEFLAGS, Val::Int32(v) => v);
    let links = req!(tag::FILELINKTOS, Val::StrArray(v) => v);
    let sizes: Vec<u64> = match m.look(tag::LONGFILESIZES) {
        Look::Val(Val::Int64(v)) => v,
        Look::Dup | Look::Undecodable => return Exp::DontCare,
        _ => match m.look(tag::FILESIZES) {
            Look::Val(Val::Int32(v)) => v.into_iter().map(|x| x as u64).collect(),
            Look::Absent => return Exp::Err(ANYERR),
            Look::Val(_) => return Exp::Err(ANYERR),
            _ => return Exp::DontCare,
        },
    };
    let caps: Option<Vec<Vec<u8>>> = match m.look(tag::FILECAPS) {
        Look::Absent => None,
        Look::Val(Val::StrArray(v)) => Some(v),
        Look::Val(Val::I18n(_)) => return Exp::DontCare,
        Look::Val(_) => return Exp::Err(MEMBER),
        _ => return Exp::DontCare,
    };
    let ima: Option<Vec<Vec<u8>>> = match m.look_in(m.sig, tag::SIG_FILESIGNATURES) {
        Look::Absent => None,
        Look::Val(Val::StrArray(v)) => Some(v),
        Look::Val(Val::I18n(_)) => return Exp::DontCare,
        Look::Val(_) => return Exp::Err(MEMBER),
        _ => return Exp::DontCare,
    };
    let paths = match exp_file_paths(m) {
        Exp::Ok(Value::Array(p)) => p,
        Exp::Err(k) => return Exp::Err(k),
        _ => return Exp::DontCare,
    };
    if paths.is_empty() && matches!(m.look(tag::BASENAMES), Look::Absent) {
        // per-file arrays without any path triple: the zip is empty either way
    }
    let algo = match exp_digest_algo(m) {
        Exp::Ok(v) => v.as_str().unwrap().to_string(),
        Exp::Err(k) if k == NOTFOUND => "Md5".to_string(), // rpm omits the tag for the MD5 default
        _ => return Exp::DontCare,                          // unknown / malformed algorithm value
    };
    let lens = [paths.len(), users.len(), groups.len(), modes.len(), digests.len(), mtimes.len(), sizes.len(), flags.len(), links.len()];
    let n = *lens.iter().min().unwrap();
    let mut list = Vec::new();
    for i in 0..n {
        let dg = &digests[i];
        let digest = if dg.is_empty() {
            Value::Null
        } else {
            if !digest_len_ok(&algo, dg.len()) {
                return Exp::Err(ANYERR);
            }
            json!({"hex": lossy(dg), "algo": algo})
        };
        list.push(json!({
            "path": paths[i],
            "user": s(&users[i]),
            "group": s(&groups[i]),
            "mode": modes[i],
            "kind": match modes[i] & 0o170000 { 0o040000 => "dir", 0o100000 => "regular", 0o120000 => "symlink", _ => "other" },
            "mtime": mtimes[i],
            "size": sizes[i],
            "flags": flags[i],
            "digest": digest,
            "caps": caps.as_ref().map(|c| c.get(i).map(|x| s(x)).unwrap_or(Value::Null)).unwrap_or(Value::Null),
            "linkto": s(&links[i]),
            "ima": ima.as_ref().map(|c| c.get(i).map(|x| s(x)).unwrap_or(Value::Null)).unwrap_or(Value::Null),
        }));
    }
    if lens.iter().all(|l| *l == n) {
        Exp::Ok(Value::Array(list))
    } else {
        Exp::Prefix(list)
    }
}

fn exp_scriptlet(m: &Model, st: u32, ft: u32, pt: u32) -> Exp {
    let script = match m.look(st) {
        Look::Absent => return Exp::Err(NOTFOUND),
        Look::Val(Val::Str(b)) => s(&b),
        Look::Val(_) => return Exp::Err(WRONGTYPE),
        _ => return Exp::DontCare,
    };
    let flags = match m.look(ft) {
        Look::Val(Val::Int32(v)) if !v.is_empty() => json!(v[0]),
        Look::Dup | Look::Undecodable => return Exp::DontCare,
        _ => Value::Null,
    };
    let prog = match m.look(pt) {
        Look::Val(Val::StrArray(v)) => Value::Array(v.iter().map(|x| s(x)).collect()),
        Look::Val(Val::I18n(_)) | Look::Val(Val::Str(_)) | Look::Dup | Look::Undecodable => return Exp::DontCare,
        _ => Value::Null,
    };
    Exp::Ok(json!({"script": script, "flags": flags, "program": prog}))
}

// ---------------------------------------------------------------------------------------------
// library side, rendered to the same JSON shape

fn kind(e: &rpm::Error) -> String {
    format!("{e:?}").split(|c: char| !c.is_alphanumeric() && c != '_').next().unwrap_or("").to_string()
}

type Got = Result<Value, String>;

fn r_str(r: Result<&str, rpm::Error>) -> Got {
    r.map(|x| json!(x)).map_err(|e| kind(&e))
}

fn r_deps(r: Result<Vec<rpm::Dependency>, rpm::Error>) -> Got {
    r.map(|v| Value::Array(v.into_iter().map(|d| json!({"name": d.name, "flags": d.flags.bits(), "version": d.version})).collect())).map_err(|e| kind(&e))
}

fn r_script(r: Result<rpm::Scriptlet, rpm::Error>) -> Got {
    r.map(|sc| json!({"script": sc.script, "flags": sc.flags.map(|f| f.bits()), "program": sc.program})).map_err(|e| kind(&e))
}

fn accessor_table(m: &PackageMetadata, model: &Model) -> Vec<(&'static str, Exp, Result<Got, crate::util::par::PanicInfo>)> {
    let mut t: Vec<(&'static str, Exp, Result<Got, crate::util::par::PanicInfo>)> = Vec::new();
    macro_rules! row {
        ($name:expr, $exp:expr, $got:expr) => {
            t.push(($name, $exp, guard(|| $got)));
        };
    }
    row!("get_name", exp_string(model, tag::NAME), r_str(m.get_name()));
    row!("get_version", exp_string(model, tag::VERSION), r_str(m.get_version()));
    row!("get_release", exp_string(model, tag::RELEASE), r_str(m.get_release()));
    row!("get_arch", exp_string(model, tag::ARCH), r_str(m.get_arch()));
    row!("get_vendor", exp_string(model, tag::VENDOR), r_str(m.get_vendor()));
    row!("get_url", exp_string(model, tag::URL), r_str(m.get_url()));
    row!("get_vcs", exp_string(model, tag::VCS), r_str(m.get_vcs()));
    row!("get_license", exp_string(model, tag::LICENSE), r_str(m.get_license()));
    row!("get_packager", exp_string(model, tag::PACKAGER), r_str(m.get_packager()));
    row!("get_build_host", exp_string(model, tag::BUILDHOST), r_str(m.get_build_host()));
    row!("get_cookie", exp_string(model, tag::COOKIE), r_str(m.get_cookie()));
    row!("get_source_rpm", exp_string(model, tag::SOURCERPM), r_str(m.get_source_rpm()));
    row!("get_summary", exp_i18n(model, tag::SUMMARY), r_str(m.get_summary()));
    row!("get_description", exp_i18n(model, tag::DESCRIPTION), r_str(m.get_description()));
    row!("get_group", exp_i18n(model, tag::GROUP), r_str(m.get_group()));
    row!("get_epoch", exp_u32(model, tag::EPOCH), m.get_epoch().map(|x| json!(x)).map_err(|e| kind(&e)));
    row!(
        "get_build_time",
        match exp_u32(model, tag::BUILDTIME) {
            Exp::Ok(v) => Exp::Ok(json!(v.as_u64().unwrap())),
            o => o,
        },
        m.get_build_time().map(|x| json!(x)).map_err(|e| kind(&e))
    );
    row!("get_installed_size", exp_installed_size(model), m.get_installed_size().map(|x| json!(x)).map_err(|e| kind(&e)));
    row!("get_payload_compressor", exp_compressor(model), m.get_payload_compressor().map(|x| json!(format!("{x:?}"))).map_err(|e| kind(&e)));
    row!("get_file_digest_algorithm", exp_digest_algo(model), m.get_file_digest_algorithm().map(|x| json!(format!("{x:?}"))).map_err(|e| kind(&e)));
    row!("is_source_package", Exp::Ok(json!(model.h.find(tag::SOURCEPACKAGE).is_some())), Ok(json!(m.is_source_package())));
    row!("get_file_paths", exp_file_paths(model), m.get_file_paths().map(|v| Value::Array(v.iter().map(|p| json!(p.to_string_lossy())).collect())).map_err(|e| kind(&e)));
    row!(
        "get_file_entries",
        exp_file_entries(model),
        m.get_file_entries()
            .map(|v| {
                Value::Array(
                    v.iter()
                        .map(|e| {
                            json!({
                                "path": e.path.to_string_lossy(),
                                "user": e.ownership.user,
                                "group": e.ownership.group,
                                "mode": e.mode.raw_mode(),
                                "kind": match e.mode { rpm::FileMode::Dir { .. } => "dir", rpm::FileMode::Regular { .. } => "regular", rpm::FileMode::SymbolicLink { .. } => "symlink", _ => "other" },
                                "mtime": e.modified_at.0,
                                "size": e.size as u64,
                                "flags": e.flags.bits(),
                                "digest": e.digest.as_ref().map(|d| json!({"hex": d.as_hex(), "algo": format!("{:?}", d.algorithm())})),
                                "caps": e.caps,
                                "linkto": e.linkto,
                                "ima": e.ima_signature,
                            })
                        })
                        .collect(),
                )
            })
            .map_err(|e| kind(&e))
    );
    row!("get_provides", exp_deps(model, tag::PROVIDENAME, tag::PROVIDEFLAGS, tag::PROVIDEVERSION), r_deps(m.get_provides()));
    row!("get_requires", exp_deps(model, tag::REQUIRENAME, tag::REQUIREFLAGS, tag::REQUIREVERSION), r_deps(m.get_requires()));
    row!("get_conflicts", exp_deps(model, tag::CONFLICTNAME, tag::CONFLICTFLAGS, tag::CONFLICTVERSION), r_deps(m.get_conflicts()));
    row!("get_obsoletes", exp_deps(model, tag::OBSOLETENAME, tag::OBSOLETEFLAGS, tag::OBSOLETEVERSION), r_deps(m.get_obsoletes()));
    row!("get_recommends", exp_deps(model, tag::RECOMMENDNAME, tag::RECOMMENDFLAGS, tag::RECOMMENDVERSION), r_deps(m.get_recommends()));
    row!("get_suggests", exp_deps(model, tag::SUGGESTNAME, tag::SUGGESTFLAGS, tag::SUGGESTVERSION), r_deps(m.get_suggests()));
    row!("get_enhances", exp_deps(model, tag::ENHANCENAME, tag::ENHANCEFLAGS, tag::ENHANCEVERSION), r_deps(m.get_enhances()));
    row!("get_supplements", exp_deps(model, tag::SUPPLEMENTNAME, tag::SUPPLEMENTFLAGS, tag::SUPPLEMENTVERSION), r_deps(m.get_supplements()));
    row!(
        "get_changelog_entries",
        exp_changelog(model),
        m.get_changelog_entries().map(|v| Value::Array(v.into_iter().map(|c| json!({"name": c.name, "timestamp": c.timestamp, "description": c.description})).collect())).map_err(|e| kind(&e))
    );
    row!("get_pre_install_script", exp_scriptlet(model, tag::PREIN, tag::PREINFLAGS, tag::PREINPROG), r_script(m.get_pre_install_script()));
    row!("get_post_install_script", exp_scriptlet(model, tag::POSTIN, tag::POSTINFLAGS, tag::POSTINPROG), r_script(m.get_post_install_script()));
    row!("get_pre_uninstall_script", exp_scriptlet(model, tag::PREUN, tag::PREUNFLAGS, tag::PREUNPROG), r_script(m.get_pre_uninstall_script()));
    row!("get_post_uninstall_script", exp_scriptlet(model, tag::POSTUN, tag::POSTUNFLAGS, tag::POSTUNPROG), r_script(m.get_post_uninstall_script()));
    row!("get_pre_trans_script", exp_scriptlet(model, tag::PRETRANS, tag::PRETRANSFLAGS, tag::PRETRANSPROG), r_script(m.get_pre_trans_script()));
    row!("get_post_trans_script", exp_scriptlet(model, tag::POSTTRANS, tag::POSTTRANSFLAGS, tag::POSTTRANSPROG), r_script(m.get_post_trans_script()));
    row!("get_pre_untrans_script", exp_scriptlet(model, tag::PREUNTRANS, tag::PREUNTRANSFLAGS, tag::PREUNTRANSPROG), r_script(m.get_pre_untrans_script()));
    row!("get_post_untrans_script", exp_scriptlet(model, tag::POSTUNTRANS, tag::POSTUNTRANSFLAGS, tag::POSTUNTRANSPROG), r_script(m.get_post_untrans_script()));
    t
}

/// generic typed getters on every entry whose tag the library knows
fn generic_rows(m: &PackageMetadata, model: &Model) -> Vec<(String, Exp, Result<Got, crate::util::par::PanicInfo>)> {
    let mut rows = Vec::new();
    let strs = |v: &[Vec<u8>]| Value::Array(v.iter().map(|x| s(x)).collect());
    for (which, h) in [("hdr", model.h), ("sig", model.sig)] {
        for e in &h.entries {
            if h.find_all(e.tag).len() != 1 {
                continue;
            }
            let Ok(val) = decode_entry(h.store(model.bytes), e) else { continue };
            macro_rules! call {
                ($method:ident, $conv:expr) => {{
                    if which == "hdr" {
                        IndexTag::from_u32(e.tag).map(|t| guard(|| m.header.$method(t).map($conv).map_err(|e| kind(&e))))
                    } else {
                        IndexSignatureTag::from_u32(e.tag).map(|t| guard(|| m.signature.$method(t).map($conv).map_err(|e| kind(&e))))
                    }
                }};
            }
            let (name, exp, got) = match &val {
                Val::Int16(v) => ("get_entry_data_as_u16_array", Exp::Ok(json!(v)), call!(get_entry_data_as_u16_array, |x| json!(x))),
                Val::Int32(v) => ("get_entry_data_as_u32_array", Exp::Ok(json!(v)), call!(get_entry_data_as_u32_array, |x| json!(x))),
                Val::Int64(v) => ("get_entry_data_as_u64_array", Exp::Ok(json!(v)), call!(get_entry_data_as_u64_array, |x| json!(x))),
                Val::Bin(v) => ("get_entry_data_as_binary", Exp::Ok(json!(v)), call!(get_entry_data_as_binary, |x| json!(x))),
                Val::Str(v) => ("get_entry_data_as_string", Exp::Ok(s(v)), call!(get_entry_data_as_string, |x| json!(x))),
                Val::StrArray(v) => ("get_entry_data_as_string_array", Exp::Ok(strs(v)), call!(get_entry_data_as_string_array, |x| json!(x))),
                Val::I18n(v) => ("get_entry_data_as_string_array(i18n)", Exp::Ok(strs(v)), call!(get_entry_data_as_string_array, |x| json!(x))),
                _ => continue,
            };
            if let Some(got) = got {
                rows.push((format!("{which}.{name}"), exp, got));
            }
            // scalar / first-item getters on the same entry
            let extra = match &val {
                Val::Int32(v) => Some(("get_entry_data_as_u32", v.first().map(|x| Exp::Ok(json!(x))).unwrap_or(Exp::Err(ANYERR)), call!(get_entry_data_as_u32, |x| json!(x)))),
                Val::Int64(v) => Some(("get_entry_data_as_u64", v.first().map(|x| Exp::Ok(json!(x))).unwrap_or(Exp::Err(ANYERR)), call!(get_entry_data_as_u64, |x| json!(x)))),
                Val::I18n(v) => Some(("get_entry_data_as_i18n_string", v.first().map(|x| Exp::Ok(s(x))).unwrap_or(Exp::Err(ANYERR)), call!(get_entry_data_as_i18n_string, |x| json!(x)))),
                // a getter of another type must report the type mismatch, never a value
                Val::Str(_) => Some(("get_entry_data_as_u32(on a string)", Exp::Err(WRONGTYPE), call!(get_entry_data_as_u32, |x| json!(x)))),
                Val::StrArray(_) => Some(("get_entry_data_as_string(on a string array)", Exp::Err(WRONGTYPE), call!(get_entry_data_as_string, |x| json!(x)))),
                Val::Bin(_) => Some(("get_entry_data_as_string_array(on binary)", Exp::Err(WRONGTYPE), call!(get_entry_data_as_string_array, |x| json!(x)))),
                _ => None,
            };
            if let Some((name, exp, Some(got))) = extra {
                rows.push((format!("{which}.{name}"), exp, got));
            }
        }
    }
    rows
}

/// judge one package: returns (violations, number of accessor results with a definite expectation)
pub fn judge_bytes(bytes: &[u8]) -> (Vec<(String, String)>, u64, bool) {
    let mut out = Vec::new();
    let Ok(p) = walk_package(bytes) else { return (out, 0, false) };
    let m = match guard(|| PackageMetadata::parse(&mut &bytes[..])) {
        Ok(Ok(m)) => m,
        Ok(Err(e)) => {
            out.push((format!("well-formed-header-rejected:{}", kind(&e)), format!("a well-formed header is rejected: {e}")));
            return (out, 0, false);
        }
        Err(pn) => {
            out.push((format!("panic:parse:{}", pn.site()), format!("parsing a well-formed header panics: {}", pn.message)));
            return (out, 0, false);
        }
    };
    let model = Model { bytes, h: &p.hdr, sig: &p.sig };
    let mut definite = 0u64;
    let mut rows: Vec<(String, Exp, Result<Got, crate::util::par::PanicInfo>)> = accessor_table(&m, &model).into_iter().map(|(n, e, g)| (n.to_string(), e, g)).collect();
    rows.extend(generic_rows(&m, &model));
    for (name, exp, got) in rows {
        let got = match got {
            Ok(g) => g,
            Err(pn) => {
                out.push((format!("panic:{name}:{}", crate::util::par::normalize_msg(&pn.message)), format!("{name} panics on a well-formed header: {} (expected {exp:?})", pn.message)));
                continue;
            }
        };
        match (&exp, &got) {
            (Exp::DontCare, _) => {}
            (Exp::Ok(want), Ok(g)) => {
                definite += 1;
                if want != g {
                    out.push((format!("{name}:wrong-value"), format!("{name} returns {} but the header stores {}", short(g), short(want))));
                }
            }
            (Exp::Ok(want), Err(k)) => {
                definite += 1;
                out.push((format!("{name}:error-instead-of-value:{k}"), format!("{name} fails with {k} but the header stores {}", short(want))));
            }
            (Exp::Err(kinds), Ok(g)) => {
                definite += 1;
                out.push((format!("{name}:made-up-value"), format!("{name} returns {} although the tag is absent / of another type (expected error {kinds:?})", short(g))));
            }
            (Exp::Err(kinds), Err(k)) => {
                definite += 1;
                if !kinds.is_empty() && !kinds.contains(&k.as_str()) {
                    out.push((format!("{name}:wrong-error-kind:{k}"), format!("{name} fails with {k}, expected one of {kinds:?}")));
                }
            }
            (Exp::Prefix(list), Ok(Value::Array(g))) => {
                if g.len() > list.len() || g.iter().zip(list).any(|(a, b)| a != b) {
                    out.push((format!("{name}:not-a-prefix"), format!("{name} returns {} which is not a prefix of the zipped header data {}", short(&json!(g)), short(&json!(list)))));
                }
            }
            (Exp::Prefix(_), _) => {}
        }
    }
    (out, definite, true)
}

fn short(v: &Value) -> String {
    let t = v.to_string();
    if t.len() > 300 {
        format!("{}…", t.chars().take(300).collect::<String>())
    } else {
        t
    }
}

// ---------------------------------------------------------------------------------------------
// generator: well-formed headers around the accessor tags

fn rstr(r: &mut Rng) -> Vec<u8> {
    rand_bytes_str(r)
}

fn strs_n(r: &mut Rng, n: usize) -> Val {
    Val::StrArray((0..n).map(|_| rstr(r)).collect())
}

/// right-typed value for a tag with about `n` items
fn right(r: &mut Rng, typ: u32, n: usize) -> Val {
    match typ {
        3 => Val::Int16((0..n).map(|_| [0o100644u16, 0o040755, 0o120777, 0o010644, 0o060660, 0o140755, 0o020620, 0o104755, 0o102755, 0o106711, 0o041777, r.next() as u16][r.usize(12)]).collect()),
        4 => Val::Int32((0..n).map(|_| [0u32, 1, 8, r.next() as u32][r.usize(4)]).collect()),
        5 => Val::Int64((0..n).map(|_| [0u64, 1, 1 << 33, r.next()][r.usize(4)]).collect()),
        6 => Val::Str(rstr(r)),
        8 => strs_n(r, n),
        9 => Val::I18n((0..n).map(|_| rstr(r)).collect()),
        t => rand_val(r, t),
    }
}

fn perturb(r: &mut Rng, items: &mut Vec<(u32, Val)>) {
    if items.is_empty() {
        return;
    }
    match r.below(10) {
        0 => {
            // drop one member
            let i = r.usize(items.len());
            items.remove(i);
        }
        1 => {
            // wrong type for one member
            let i = r.usize(items.len());
            let cur = items[i].1.typ();
            let mut t = r.below(10) as u32;
            if t == cur {
                t = (t + 1) % 10;
            }
            let n = items[i].1.count() as usize;
            items[i].1 = if t == 0 { Val::Null } else { right(r, t, n.max(1)) };
        }
        2 => {
            // unequal length
            let i = r.usize(items.len());
            let t = items[i].1.typ();
            let n = r.usize(4);
            items[i].1 = right(r, t, n);
        }
        3 => {
            // duplicate
            let i = r.usize(items.len());
            let d = items[i].clone();
            items.push(d);
        }
        _ => {}
    }
}

fn gen_header_items(r: &mut Rng) -> (Vec<(u32, Val)>, Vec<(u32, Val)>) {
    let mut items: Vec<(u32, Val)> = Vec::new();
    // scalars
    for t in [tag::NAME, tag::VERSION, tag::RELEASE, tag::ARCH, tag::VENDOR, tag::URL, tag::VCS, tag::LICENSE, tag::PACKAGER, tag::BUILDHOST, tag::COOKIE, tag::SOURCERPM] {
        match r.below(8) {
            0 => {}
            1 => {
                let ty = r.below(10) as u32;
                items.push((t, rand_val(r, ty)))
            }
            _ => items.push((t, Val::Str(rstr(r)))),
        }
    }
    for t in [tag::SUMMARY, tag::DESCRIPTION, tag::GROUP] {
        match r.below(8) {
            0 => {}
            1 => {
                let ty = r.below(10) as u32;
                items.push((t, rand_val(r, ty)))
            }
            _ => {
                let n = [1usize, 1, 2, 3, 4, 0][r.usize(6)];
                items.push((t, Val::I18n((0..n).map(|_| rstr(r)).collect())));
            }
        }
    }
    if r.chance(3, 4) {
        items.push((tag::I18NTABLE, Val::strs(&["C", "de", "fr", "ja"])));
    }
    for t in [tag::EPOCH, tag::BUILDTIME, tag::SIZE, tag::FILEDIGESTALGO] {
        match r.below(8) {
            0 => {}
            1 => {
                let ty = r.below(10) as u32;
                items.push((t, rand_val(r, ty)))
            }
            _ => {
                let v = if t == tag::FILEDIGESTALGO { [8u32, 1, 8, 8, 10, 2, 0][r.usize(7)] } else { r.next() as u32 };
                let n = 1 + r.usize(2);
                items.push((t, Val::Int32((0..n).map(|k| if k == 0 { v } else { 7 }).collect())));
            }
        }
    }
    if r.chance(1, 3) {
        let n = 1 + r.usize(2);
        items.push((tag::LONGSIZE, if r.chance(1, 6) { Val::Int32(vec![5]) } else { Val::Int64((0..n).map(|_| r.next()).collect()) }));
    }
    if r.chance(2, 3) {
        items.push((tag::PAYLOADCOMPRESSOR, if r.chance(1, 8) { Val::strs(&["gzip"]) } else { Val::str(["gzip", "zstd", "xz", "bzip2", "lzma", "", "GZIP"][r.usize(7)]) }));
    }
    if r.chance(1, 6) {
        items.push((tag::SOURCEPACKAGE, Val::Int32(vec![1])));
    }
    // files
    if r.chance(3, 4) {
        let n = [0usize, 1, 2, 3, 5][r.usize(5)];
        let ndirs = 1 + r.usize(3);
        let mut dirs: Vec<Vec<u8>> = (0..ndirs).map(|i| format!("/{}/", ["usr/bin", "etc", "opt/ünï", "a b"][i % 4]).into_bytes()).collect();
        if r.chance(1, 6) {
            // source packages list their files with one empty directory name
            dirs[0] = Vec::new();
        }
        let algo8 = items.iter().any(|(t, v)| *t == tag::FILEDIGESTALGO && matches!(v, Val::Int32(x) if x.first() == Some(&8)));
        let dig = |r: &mut Rng| -> Vec<u8> {
            match r.below(5) {
                0 => Vec::new(),
                1 => b"abc".to_vec(),
                // a digest whose length belongs to ANOTHER algorithm than the one the header names (or
                // defaults to): the accessor must not make up an algorithm that fits
                4 if r.chance(1, 2) => {
                    let n = [16usize, 20, 28, 32, 48, 64][r.usize(6)];
                    hex::encode(r.bytes(n)).into_bytes()
                }
                k => {
                    let h = if algo8 { crate::util::sha256_hex(&r.bytes(4)) } else { hex::encode(r.bytes(16)) };
                    // the header stores text: upper-case and mixed-case digits must come back as stored
                    match k {
                        2 if r.chance(1, 2) => h.to_uppercase().into_bytes(),
                        3 if r.chance(1, 2) => h.chars().enumerate().map(|(i, c)| if i % 3 == 0 { c.to_ascii_uppercase() } else { c }).collect::<String>().into_bytes(),
                        _ => h.into_bytes(),
                    }
                }
            }
        };
        let mut f: Vec<(u32, Val)> = vec![
            (tag::BASENAMES, Val::StrArray((0..n).map(|i| format!("f{i}{}", ["", ".conf", " x", "ü"][r.usize(4)]).into_bytes()).collect())),
            (tag::DIRNAMES, Val::StrArray(dirs.clone())),
            (tag::DIRINDEXES, Val::Int32((0..n).map(|_| if r.chance(1, 25) { ndirs as u32 + r.below(3) as u32 } else { r.below(ndirs as u64) as u32 }).collect())),
            (tag::FILEMODES, right(r, 3, n)),
            (tag::FILEUSERNAME, Val::StrArray((0..n).map(|_| [&b"root"[..], b"alice", b""][r.usize(3)].to_vec()).collect())),
            (tag::FILEGROUPNAME, Val::StrArray((0..n).map(|_| [&b"root"[..], b"wheel"][r.usize(2)].to_vec()).collect())),
            (tag::FILEDIGESTS, Val::StrArray((0..n).map(|_| dig(r)).collect())),
            (tag::FILEMTIMES, right(r, 4, n)),
            (tag::FILEFLAGS, right(r, 4, n)),
            (tag::FILELINKTOS, Val::StrArray((0..n).map(|_| if r.chance(1, 4) { b"../t".to_vec() } else { Vec::new() }).collect())),
        ];
        match r.below(4) {
            0 => f.push((tag::LONGFILESIZES, right(r, 5, n))),
            1 => {
                f.push((tag::FILESIZES, right(r, 4, n)));
                f.push((tag::LONGFILESIZES, right(r, 5, n)));
            }
            _ => f.push((tag::FILESIZES, right(r, 4, n))),
        }
        if r.chance(1, 3) {
            f.push((tag::FILECAPS, Val::StrArray((0..n).map(|_| if r.bool() { b"cap_chown=e".to_vec() } else { Vec::new() }).collect())));
        }
        if n > 0 || r.bool() {
            perturb(r, &mut f);
            items.extend(f);
        }
    }
    // dependency triples
    let triples = [
        (tag::PROVIDENAME, tag::PROVIDEFLAGS, tag::PROVIDEVERSION),
        (tag::REQUIRENAME, tag::REQUIREFLAGS, tag::REQUIREVERSION),
        (tag::CONFLICTNAME, tag::CONFLICTFLAGS, tag::CONFLICTVERSION),
        (tag::OBSOLETENAME, tag::OBSOLETEFLAGS, tag::OBSOLETEVERSION),
        (tag::RECOMMENDNAME, tag::RECOMMENDFLAGS, tag::RECOMMENDVERSION),
        (tag::SUGGESTNAME, tag::SUGGESTFLAGS, tag::SUGGESTVERSION),
        (tag::ENHANCENAME, tag::ENHANCEFLAGS, tag::ENHANCEVERSION),
        (tag::SUPPLEMENTNAME, tag::SUPPLEMENTFLAGS, tag::SUPPLEMENTVERSION),
        (tag::CHANGELOGNAME, tag::CHANGELOGTIME, tag::CHANGELOGTEXT),
    ];
    for (a, b, c) in triples {
        if r.chance(1, 2) {
            let n = r.usize(4);
            let mut t = vec![(a, strs_n(r, n)), (b, right(r, 4, n)), (c, strs_n(r, n))];
            // repeated entries (the same triple several times in a row, as generators emit them):
            // a list is zipped item by item, nothing is merged
            if n >= 1 && r.chance(1, 3) {
                let reps = 1 + r.usize(3);
                for (_, v) in t.iter_mut() {
                    match v {
                        Val::StrArray(x) => {
                            let first = x[0].clone();
                            for _ in 0..reps {
                                x.insert(0, first.clone());
                            }
                        }
                        Val::Int32(x) => {
                            let first = x[0];
                            for _ in 0..reps {
                                x.insert(0, first);
                            }
                        }
                        _ => {}
                    }
                }
            }
            perturb(r, &mut t);
            items.extend(t);
        }
    }
    // scriptlets
    let scripts = [
        (tag::PREIN, tag::PREINFLAGS, tag::PREINPROG),
        (tag::POSTIN, tag::POSTINFLAGS, tag::POSTINPROG),
        (tag::PREUN, tag::PREUNFLAGS, tag::PREUNPROG),
        (tag::POSTUN, tag::POSTUNFLAGS, tag::POSTUNPROG),
        (tag::PRETRANS, tag::PRETRANSFLAGS, tag::PRETRANSPROG),
        (tag::POSTTRANS, tag::POSTTRANSFLAGS, tag::POSTTRANSPROG),
        (tag::PREUNTRANS, tag::PREUNTRANSFLAGS, tag::PREUNTRANSPROG),
        (tag::POSTUNTRANS, tag::POSTUNTRANSFLAGS, tag::POSTUNTRANSPROG),
    ];
    for (a, b, c) in scripts {
        if r.chance(1, 3) {
            let mut t = vec![(a, Val::Str(rstr(r)))];
            if r.bool() {
                t.push((b, Val::Int32(vec![r.below(8) as u32])));
            }
            if r.bool() {
                let n = 1 + r.usize(3);
                t.push((c, if r.chance(1, 5) { Val::str("/bin/sh") } else { strs_n(r, n) }));
            }
            perturb(r, &mut t);
            items.extend(t);
        }
    }
    // signature header: ima signatures + a few digests
    let mut sig: Vec<(u32, Val)> = Vec::new();
    if r.chance(1, 4) {
        let n = r.usize(4);
        sig.push((tag::SIG_FILESIGNATURES, if r.chance(1, 6) { Val::Int32(vec![1]) } else { strs_n(r, n) }));
    }
    if r.bool() {
        sig.push((tag::SIG_SHA256, Val::str("00")));
    }
    if r.bool() {
        sig.push((tag::SIG_MD5, Val::Bin(r.bytes(16))));
    }
    (items, sig)
}

pub fn gen_package(r: &mut Rng) -> Vec<u8> {
    let (mut items, sig) = gen_header_items(r);
    if r.chance(2, 3) {
        items.sort_by_key(|(t, _)| *t);
    } else {
        r.shuffle(&mut items);
    }
    let hs = HdrSpec { reserved: [0; 4], items, region: if r.bool() { Some(tag::HDR_REGION) } else { None }, aliases: vec![], trailing: vec![], shuffle_seed: None, dribbles: 0, misalign: false };
    let ss = HdrSpec { reserved: [0; 4], items: sig, region: if r.bool() { Some(tag::SIG_REGION) } else { None }, aliases: vec![], trailing: vec![], shuffle_seed: None, dribbles: 0, misalign: false };
    enc_package(&enc_lead("c05"), &enc_spec(&ss), &enc_spec(&hs), b"")
}

fn run(ctx: &Ctx, rep: &Report) {
    // what an accessor returns is a function of the header bytes, not of the caller's locale: the
    // whole check runs under an environment that names locales the generated locale tables contain
    // (set once, before any worker thread exists)
    let locale = [("de_DE.UTF-8", "fr:de"), ("fr_FR.UTF-8", "ja:fr"), ("ja_JP.UTF-8", "de"), ("C", "")][(ctx.seed % 4) as usize];
    for k in ["LANG", "LC_ALL", "LC_MESSAGES"] {
        std::env::set_var(k, locale.0);
    }
    std::env::set_var("LANGUAGE", locale.1);
    rep.note(format!("environment of this run: LANG=LC_ALL=LC_MESSAGES={} LANGUAGE={:?}", locale.0, locale.1));
    // assets first: rich real data
    for rel in ASSETS {
        let Ok(bytes) = std::fs::read(ctx.asset(rel)) else { continue };
        rep.eval(1);
        let (vs, definite, parsed) = judge_bytes(&bytes);
        if parsed && definite > 0 {
            rep.nontrivial(hash_bytes(&bytes[..bytes.len().min(65536)]));
        }
        rep.count("asset.accessor_results_compared", definite);
        for (k, what) in vs {
            rep.violation(k, format!("[asset {rel}] {what}"), json!({"asset": rel}), 1 << 20);
        }
    }
    // packages emitted by the builder (real, rich headers: all dependency kinds, scriptlets, caps, ...)
    {
        use crate::gen::build::{build, gen_cfg, pkg_bytes, GenOpts};
        let nb: u64 = ctx.tier.pick(150, 12_000);
        let base = ctx.work_dir("built");
        par_for(ctx.threads, nb, 1, |i| {
            let mut rng = Rng::for_case(ctx.seed, "C05-built", i);
            let cfg = gen_cfg(&mut rng, &GenOpts { all_levels: false, ..Default::default() });
            let dir = base.join(format!("c{i}"));
            if let Ok(Ok(bytes)) = guard(|| build(&cfg, &dir).and_then(|p| pkg_bytes(&p))) {
                rep.eval(1);
                let (vs, definite, parsed) = judge_bytes(&bytes);
                if parsed && definite > 0 {
                    rep.nontrivial(hash_bytes(&bytes[..bytes.len().min(65536)]));
                }
                rep.count("built.accessor_results_compared", definite);
                rep.count("built.packages", 1);
                for (k, what) in vs {
                    rep.violation(k, format!("[built package] {what}"), json!({"cfg": cfg}), 1 << 19);
                }
            }
            let _ = std::fs::remove_dir_all(&dir);
        });
        let _ = std::fs::remove_dir_all(&base);
    }
    let n: u64 = ctx.tier.pick(20_000, 4_000_000);
    let chunk = 200u64;
    par_for(ctx.threads, n / chunk, 1, |c| {
        let mut rng = Rng::for_case(ctx.seed, "C05", c);
        let mut local: BTreeMap<String, u64> = BTreeMap::new();
        let mut hs = Vec::new();
        for k in 0..chunk {
            let bytes = gen_package(&mut rng);
            let (vs, definite, parsed) = judge_bytes(&bytes);
            *local.entry("accessor_results_compared".into()).or_insert(0) += definite;
            if parsed {
                *local.entry("headers_parsed".into()).or_insert(0) += 1;
            }
            if definite > 0 {
                hs.push(hash_bytes(&bytes));
            }
            for (key, what) in vs {
                rep.violation(key, what, json!({"input_hex": hex::encode(&bytes)}), bytes.len() as u64);
            }
            if c == 0 && k < 2 {
                rep.sample(json!({"len": bytes.len(), "input_hex": crate::util::hex_trunc(&bytes, 300)}));
            }
        }
        rep.eval(chunk);
        rep.counts(&local);
        rep.nontrivial_many(hs);
    });
}

fn replay(ctx: &Ctx, w: &serde_json::Value, rep: &Report) {
    let bytes = match w["input_hex"].as_str() {
        Some(h) => hex::decode(h).unwrap_or_default(),
        None => std::fs::read(ctx.asset(w["asset"].as_str().unwrap_or(""))).unwrap_or_default(),
    };
    let (vs, definite, parsed) = judge_bytes(&bytes);
    println!("monitor: parsed={parsed}, {definite} accessor results with a definite expectation, {} mismatch(es)", vs.len());
    for (k, what) in vs {
        println!("  {k}: {what}");
        rep.violation(k, what, w.clone(), 0);
    }
}
