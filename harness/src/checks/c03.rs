//! C03 — digest verification succeeds exactly when all recorded digests match.

use super::CheckDef;
use crate::gen::build::*;
use crate::model::codec::*;
use crate::monitor::worker::*;
use crate::util::report::{Ctx, Meta, Report};
use crate::util::rng::{hash_bytes, Rng};
use rpm::Package;
use serde_json::{json, Value};
use std::collections::BTreeMap;
use std::time::Duration;

pub fn def() -> CheckDef {
    CheckDef { id: "C03", run, meta, dbg: false, replay: Some(replay) }
}

fn meta(_ctx: &Ctx) -> Meta {
    Meta {
        level: "exploration",
        rule: "packages synthesised by the harness encoder around a real header + payload: every subset of the four digest tags (MD5 over header+payload, SHA-1 and SHA-256 over the header, SHA-256 payload digest) x each present digest correct or wrong (first/middle/last character, wrong length), payload digest algorithm in {8 supported; 1,9,10,11,12,14 known-unsupported; 0,7,99,u32::MAX unknown}, digest arrays with 0/1/2 items; the asset packages and built/signed packages as they are; and every single-bit flip of header and payload of packages carrying all four digests. verify_digests() runs in worker processes (release + verifdbg); the expected verdict (Ok / digest mismatch / error for unsupported algorithm) is recomputed per input from the bytes by the independent decoder. Wrong digest values include other lengths (shorter, longer, empty, half, doubled) and pairs of wrong symbols whose differences cancel (transposition, same bit in two symbols). Part of the region-less signature headers list their entries in descending or rotated tag order. distinct_nontrivial = distinct inputs with a definite expected verdict that the library parsed".into(),
        assumptions: vec!["digests cover the canonical header image (reserved intro bytes zero), as rpm itself hashes".into()],
        floor_distinct: 1000,
    }
}

/// child side: {"parsed": bool, "verdict": "ok" | "mismatch" | "err:<Kind>"}
pub fn judge_c03(bytes: &[u8]) -> Value {
    // a crash of the parser itself on hostile bytes is C04's subject, not this property's
    match crate::util::par::guard(|| Package::parse(&mut &bytes[..])) {
        Err(_) => json!({"parsed": false, "parse_panicked": true}),
        Ok(Err(_)) => json!({"parsed": false}),
        Ok(Ok(p)) => {
            let verdict = match p.verify_digests() {
                Ok(()) => "ok".to_string(),
                Err(rpm::Error::DigestMismatchError) => "mismatch".to_string(),
                Err(e) => format!("err:{}", format!("{e:?}").split(|c: char| !c.is_alphanumeric()).next().unwrap_or("")),
            };
            json!({"parsed": true, "verdict": verdict})
        }
    }
}

#[derive(Debug, PartialEq, Clone, Copy)]
pub enum Exp {
    Ok,
    Mismatch,
    /// unsupported / unknown payload digest algorithm: any error, never success
    ErrAny,
    DontCare,
}

fn single<'a>(h: &'a RawHeader, t: u32) -> Result<Option<&'a RawEntry>, ()> {
    let v = h.find_all(t);
    match v.len() {
        0 => Ok(None),
        1 => Ok(Some(v[0])),
        _ => Err(()), // duplicated tag: either copy may be used
    }
}

pub fn expected(bytes: &[u8]) -> (Exp, &'static str) {
    let Ok(p) = walk_package(bytes) else { return (Exp::DontCare, "not-walkable") };
    let d = recompute_digests(bytes, &p);
    let (sstore, hstore) = (p.sig.store(bytes), p.hdr.store(bytes));
    let mut mismatch = false;
    let mut present = 0;
    // header digests
    for (t, typ) in [(tag::SIG_MD5, 7u32), (tag::SIG_SHA1, 6), (tag::SIG_SHA256, 6)] {
        match single(&p.sig, t) {
            Err(()) => return (Exp::DontCare, "duplicate-digest-tag"),
            Ok(None) => {}
            Ok(Some(e)) => {
                if e.typ != typ {
                    return (Exp::DontCare, "digest-with-nonstandard-type");
                }
                let Ok(v) = decode_entry(sstore, e) else { return (Exp::DontCare, "digest-entry-undecodable") };
                present += 1;
                match (t, v) {
                    (tag::SIG_MD5, Val::Bin(b)) => mismatch |= b != d.md5_header_payload,
                    (tag::SIG_SHA1, Val::Str(s)) => {
                        if s.eq_ignore_ascii_case(d.sha1_header.as_bytes()) && s != d.sha1_header.as_bytes() {
                            return (Exp::DontCare, "upper-case-hex");
                        }
                        mismatch |= s != d.sha1_header.as_bytes()
                    }
                    (_, Val::Str(s)) => {
                        if s.eq_ignore_ascii_case(d.sha256_header.as_bytes()) && s != d.sha256_header.as_bytes() {
                            return (Exp::DontCare, "upper-case-hex");
                        }
                        mismatch |= s != d.sha256_header.as_bytes()
                    }
                    _ => return (Exp::DontCare, "digest-entry-undecodable"),
                }
            }
        }
    }
    // payload digest
    let (pd, pa) = match (single(&p.hdr, tag::PAYLOADDIGEST), single(&p.hdr, tag::PAYLOADDIGESTALGO)) {
        (Ok(a), Ok(b)) => (a, b),
        _ => return (Exp::DontCare, "duplicate-digest-tag"),
    };
    let mut unsupported = false;
    match (pd, pa) {
        (None, None) => {}
        (Some(de), Some(ae)) => {
            if de.typ != 8 || ae.typ != 4 {
                return (Exp::DontCare, "digest-with-nonstandard-type");
            }
            let (Ok(Val::StrArray(dv)), Ok(Val::Int32(av))) = (decode_entry(hstore, de), decode_entry(hstore, ae)) else { return (Exp::DontCare, "digest-entry-undecodable") };
            if av.is_empty() {
                return (Exp::DontCare, "empty-algorithm-entry");
            }
            if av[0] != 8 {
                unsupported = true;
            } else {
                if dv.is_empty() {
                    return (Exp::DontCare, "payload-digest-count-not-1");
                }
                present += 1;
                if dv.iter().any(|x| x.eq_ignore_ascii_case(d.sha256_payload.as_bytes()) && x != d.sha256_payload.as_bytes()) {
                    return (Exp::DontCare, "upper-case-hex");
                }
                if dv.len() > 1 {
                    // several strings: whether "the recorded digest" is the first or all of them is open,
                    // but a wrong FIRST string is a mismatch under either reading, and all-right is a match
                    let first_wrong = dv[0] != d.sha256_payload.as_bytes();
                    let all_right = dv.iter().all(|x| x == d.sha256_payload.as_bytes());
                    if !first_wrong && !all_right {
                        return (Exp::DontCare, "payload-digest-count-not-1");
                    }
                    mismatch |= first_wrong;
                } else {
                    mismatch |= dv[0] != d.sha256_payload.as_bytes();
                }
            }
        }
        _ => return (Exp::DontCare, "payload-digest-without-algorithm-or-vice-versa"),
    }
    let _ = present;
    if unsupported {
        (Exp::ErrAny, "unsupported-payload-digest-algorithm")
    } else if mismatch {
        (Exp::Mismatch, "some-digest-differs")
    } else {
        (Exp::Ok, "all-recorded-digests-match")
    }
}

fn wrong_hex(s: &str, how: usize) -> String {
    let mut b = s.as_bytes().to_vec();
    let flip = |c: u8| if c == b'0' { b'1' } else { b'0' };
    match how {
        0 => b[0] = flip(b[0]),
        1 => {
            let m = b.len() / 2;
            b[m] = flip(b[m])
        }
        2 => {
            let l = b.len() - 1;
            b[l] = flip(b[l])
        }
        3 => {
            b.pop();
        }
        4 => b.push(b'0'),
        5 => b.clear(),
        6 => b.truncate(b.len() / 2),
        7 => b.extend_from_slice(s.as_bytes()),
        // two wrong symbols whose differences cancel: a transposition ...
        8 => {
            if let Some(i) = (0..b.len() - 1).find(|i| b[*i] != b[*i + 1]) {
                b.swap(i, i + 1);
            } else {
                b[0] = flip(b[0]);
            }
        }
        // ... and the same bit flipped in two symbols (staying inside the hex alphabet)
        _ => {
            let tog = |c: u8| match c {
                b'0'..=b'9' => (c ^ 1).clamp(b'0', b'9'),
                _ => ((c - b'a') ^ 1) + b'a',
            };
            // two symbols of the same kind, so that both differences are the same bit pattern
            let digits: Vec<usize> = (0..b.len()).filter(|i| b[*i].is_ascii_digit()).collect();
            let letters: Vec<usize> = (0..b.len()).filter(|i| !b[*i].is_ascii_digit()).collect();
            let pick = if digits.len() >= 2 { digits } else { letters };
            let (i, j) = (pick[0], pick[pick.len() - 1]);
            b[i] = tog(b[i]);
            if j != i {
                b[j] = tog(b[j]);
            }
        }
    }
    String::from_utf8(b).unwrap()
}

/// synthesised packages: (label, bytes)
fn synthesise(rng: &mut Rng, thorough: bool) -> Vec<(String, Vec<u8>)> {
    use sha2::Digest;
    let mut out = Vec::new();
    let payloads: Vec<Vec<u8>> = vec![b"".to_vec(), b"070701-not-really-a-cpio-archive-but-bytes".to_vec(), rng.bytes(300)];
    let algos: [u32; 11] = [8, 1, 9, 10, 11, 12, 14, 0, 7, 99, u32::MAX];
    for (pi, payload) in payloads.iter().enumerate() {
        let pd = hex::encode(sha2::Sha256::digest(payload));
        // payload digest variants: (label, Option<(digest items, algo)>)
        let mut pvars: Vec<(String, Option<(Vec<String>, Option<u32>)>)> = vec![("no-payload-digest".into(), None), ("payload-ok".into(), Some((vec![pd.clone()], Some(8))))];
        for how in 0..10 {
            pvars.push((format!("payload-wrong{how}"), Some((vec![wrong_hex(&pd, how)], Some(8)))));
        }
        for a in &algos[1..] {
            pvars.push((format!("payload-algo{a}"), Some((vec![pd.clone()], Some(*a)))));
        }
        pvars.push(("payload-count0".into(), Some((vec![], Some(8)))));
        pvars.push(("payload-count2".into(), Some((vec![pd.clone(), pd.clone()], Some(8)))));
        pvars.push(("payload-count2-first-wrong".into(), Some((vec![wrong_hex(&pd, 0), pd.clone()], Some(8)))));
        pvars.push(("payload-count3-first-wrong".into(), Some((vec![wrong_hex(&pd, 2), pd.clone(), pd.clone()], Some(8)))));
        pvars.push(("payload-count2-second-wrong".into(), Some((vec![pd.clone(), wrong_hex(&pd, 0)], Some(8)))));
        pvars.push(("payload-count0-unknown-algo".into(), Some((vec![], Some(99)))));
        pvars.push(("payload-no-algo".into(), Some((vec![pd.clone()], None))));
        for (plabel, pv) in &pvars {
            let mut items: Vec<(u32, Val)> = vec![(tag::NAME, Val::str("digests")), (tag::VERSION, Val::str("1")), (tag::RELEASE, Val::str("1")), (tag::ARCH, Val::str("noarch"))];
            // entries of the rarer data types (the digests are taken over the header as it is stored)
            if pi != 0 {
                items.push((1200, Val::Char(b"abcd".to_vec())));
                items.push((1201, Val::Int8(vec![1, 2, 3])));
                items.push((1202, Val::Int16(vec![7, 8])));
                items.push((1203, Val::Int64(vec![u64::MAX])));
            }
            if let Some((digs, algo)) = pv {
                items.push((tag::PAYLOADDIGEST, Val::StrArray(digs.iter().map(|s| s.as_bytes().to_vec()).collect())));
                if let Some(a) = algo {
                    items.push((tag::PAYLOADDIGESTALGO, Val::Int32(vec![*a])));
                }
            }
            items.sort_by_key(|(t, _)| *t);
            let (he, hs) = if pi % 2 == 0 { layout_with_region(tag::HDR_REGION, &items) } else { layout(&items) };
            let hdr = enc_header(&he, &hs);
            let md5 = {
                let mut m = md5::Md5::new();
                m.update(&hdr);
                m.update(payload);
                m.finalize().to_vec()
            };
            let sha1 = hex::encode(sha1::Sha1::digest(&hdr));
            let sha256 = hex::encode(sha2::Sha256::digest(&hdr));
            // each header digest: 0 absent, 1 right, 2.. wrong variants (the quick tier keeps one
            // same-length, one shorter, one longer and the empty value)
            let hows: &[usize] = if thorough { &[0, 1, 2, 3, 4, 5, 6, 7, 8, 9] } else { &[0, 3, 5, 8, 9] };
            let states = 2 + hows.len();
            for m in 0..9 {
                for s1 in 0..states {
                    for s2 in 0..states {
                        // the quick tier thins the product (all single/double combinations remain)
                        if !thorough && (m + s1 + s2 + plabel.len()) % 3 == 1 && m != 0 && s1 != 0 && s2 != 0 {
                            continue;
                        }
                        let mut sitems: Vec<(u32, Val)> = Vec::new();
                        if s1 > 0 {
                            sitems.push((tag::SIG_SHA1, Val::str(&if s1 == 1 { sha1.clone() } else { wrong_hex(&sha1, hows[s1 - 2]) })));
                        }
                        if s2 > 0 {
                            sitems.push((tag::SIG_SHA256, Val::str(&if s2 == 1 { sha256.clone() } else { wrong_hex(&sha256, hows[s2 - 2]) })));
                        }
                        if m > 0 {
                            let mut v = md5.clone();
                            match m {
                                1 => {}
                                2 => v[0] ^= 1,
                                3 => v[15] ^= 0x80,
                                4 => v.truncate(15),
                                5 => v.push(0),
                                6 => {
                                    if let Some(i) = (0..15).find(|i| v[*i] != v[*i + 1]) {
                                        v.swap(i, i + 1);
                                    } else {
                                        v[0] ^= 1;
                                    }
                                }
                                7 => {
                                    v[2] ^= 0x10;
                                    v[9] ^= 0x10;
                                }
                                // two neighbouring bytes re-cut so that they read the same once each byte
                                // is rendered without its leading zero (0x0X 0xYZ -> 0xXY 0x0Z)
                                _ => {
                                    if let Some(i) = (0..15).find(|i| v[*i] < 0x10 && v[*i + 1] >= 0x10) {
                                        let (x, yz) = (v[i], v[i + 1]);
                                        v[i] = (x << 4) | (yz >> 4);
                                        v[i + 1] = yz & 0x0f;
                                    } else {
                                        v[7] ^= 0x01;
                                    }
                                }
                            }
                            sitems.push((tag::SIG_MD5, Val::Bin(v)));
                        }
                        sitems.sort_by_key(|(t, _)| *t);
                        // a third of the region-less signature headers list their entries in descending
                        // or rotated tag order (nothing requires an index to be sorted)
                        let unsorted = (m + s1) % 2 != 0 && sitems.len() >= 2 && (m + s1 + s2) % 3 != 0;
                        if unsorted {
                            if (m + s2) % 2 == 0 {
                                sitems.reverse();
                            } else {
                                sitems.rotate_left(1);
                            }
                        }
                        let (se, ss) = if (m + s1) % 2 == 0 { layout_with_region(tag::SIG_REGION, &sitems) } else { layout(&sitems) };
                        // the lead's signature-type field (covered by no digest) takes other values than 5
                        let mut lead = enc_lead("digests");
                        let st: u16 = [5, 5, 0, 1, 6, 0xffff][(m * 3 + s1 + s2 * 2) % 6];
                        lead[78..80].copy_from_slice(&st.to_be_bytes());
                        let bytes = enc_package(&lead, &enc_header(&se, &ss), &hdr, payload);
                        out.push((format!("synth:{plabel}:md5={m},sha1={s1},sha256={s2}"), bytes));
                    }
                }
            }
        }
    }
    // headers with index entries BEHIND their region (added after the region was sealed): a digest
    // of the region alone is a stale digest
    for (pi, payload) in payloads.iter().enumerate() {
        let pd = hex::encode(sha2::Sha256::digest(payload));
        let mut items: Vec<(u32, Val)> = vec![(tag::NAME, Val::str("dribble")), (tag::VERSION, Val::str("1")), (tag::RELEASE, Val::str("1")), (tag::ARCH, Val::str("noarch")), (tag::PAYLOADDIGEST, Val::StrArray(vec![pd.as_bytes().to_vec()])), (tag::PAYLOADDIGESTALGO, Val::Int32(vec![8]))];
        items.sort_by_key(|(t, _)| *t);
        let (re, rs) = layout_with_region(tag::HDR_REGION, &items);
        let sealed = enc_header(&re, &rs);
        for (k, extra) in [(tag::PREIN, Val::str("echo appended after sealing")), (tag::EPOCH, Val::Int32(vec![9])), (9999, Val::Bin(vec![1, 2, 3]))].into_iter().enumerate() {
            let mut with = items.clone();
            with.push(extra);
            let (fe, fs) = layout_with_region_and_dribbles(tag::HDR_REGION, &with, 1);
            let full = enc_header(&fe, &fs);
            for (label, img) in [("digests-of-the-whole-header", &full), ("stale-digests-of-the-region-only", &sealed)] {
                for which in 0..3 {
                    let mut sitems: Vec<(u32, Val)> = Vec::new();
                    if which != 1 {
                        sitems.push((tag::SIG_SHA256, Val::str(&hex::encode(sha2::Sha256::digest(img)))));
                    }
                    if which != 0 {
                        sitems.push((tag::SIG_SHA1, Val::str(&hex::encode(sha1::Sha1::digest(img)))));
                    }
                    sitems.sort_by_key(|(t, _)| *t);
                    let (se, ss) = layout_with_region(tag::SIG_REGION, &sitems);
                    out.push((format!("synth:dribble{k}:{label}:payload{pi}:tags{which}"), enc_package(&enc_lead("dribble"), &enc_header(&se, &ss), &full, payload)));
                }
            }
        }
    }
    out
}

fn run(ctx: &Ctx, rep: &Report) {
    let thorough = ctx.tier.pick(false, true);
    let mut rng = Rng::for_case(ctx.seed, "C03", 0);
    let keys = load_keys(&ctx.repo_dir).unwrap_or_default();
    let mut inputs: Vec<(String, Vec<u8>)> = synthesise(&mut rng, thorough);
    rep.count("synthesised", inputs.len() as u64);
    // assets and built packages as they are
    let mut flip_bases: Vec<(String, Vec<u8>)> = Vec::new();
    for rel in ASSETS {
        if let Ok(b) = std::fs::read(ctx.asset(rel)) {
            if rel.contains("rpm-empty-0-0.x86_64") || (thorough && rel.contains("ima_signed")) {
                flip_bases.push((format!("asset:{rel}"), b.clone()));
            }
            inputs.push((format!("asset:{rel}"), b));
        }
    }
    for (l, b) in crate::checks::c01::small_packages(ctx, &keys) {
        inputs.push((format!("built:{l}"), b));
    }
    // a small package carrying all four digests
    let all_four = inputs.iter().find(|(l, _)| l == "synth:payload-ok:md5=1,sha1=1,sha256=1").map(|(_, b)| b.clone());
    if let Some(b) = all_four {
        flip_bases.push(("synth-all-four".into(), b));
    }
    let dir = ctx.work_dir("built");
    let n_built = ctx.tier.pick(20, 300);
    for i in 0..n_built {
        let mut r = Rng::for_case(ctx.seed, "C03-built", i);
        let cfg = gen_cfg(&mut r, &GenOpts { max_files: 2, all_levels: false, ..Default::default() });
        if let Ok(p) = build(&cfg, &dir) {
            if let Ok(b) = pkg_bytes(&p) {
                if i < ctx.tier.pick(2, 24) && b.len() < 8192 {
                    flip_bases.push((format!("built-{i}"), b.clone()));
                }
                inputs.push((format!("built-random-{i}"), b));
            }
        }
    }
    let _ = std::fs::remove_dir_all(&dir);
    // single-bit flips
    for (label, base) in &flip_bases {
        let limit = base.len().min(ctx.tier.pick(7000, 70_000));
        for byte in 0..limit {
            for bit in 0..8 {
                let mut m = base.clone();
                m[byte] ^= 1 << bit;
                inputs.push((format!("bitflip:{label}"), m));
            }
        }
    }
    rep.count("inputs", inputs.len() as u64);
    let cases: Vec<Case> = inputs.iter().enumerate().map(|(i, (_, b))| Case { id: i as u64, budget: (256u64 << 20) + 64 * b.len() as u64, bytes: b.clone() }).collect();
    for (profile, bin) in worker_binaries() {
        let subset: Vec<Case> = cases.iter().filter(|c| profile == "release" || c.id % 4 == 0).map(|c| Case { id: c.id, budget: c.budget, bytes: c.bytes.clone() }).collect();
        let outs = run_cases(&bin, "c03", &subset, ctx.threads, Duration::from_secs(30));
        let mut local: BTreeMap<String, u64> = BTreeMap::new();
        for (id, out) in outs {
            rep.eval(1);
            let (label, bytes) = &inputs[id as usize];
            let fam = label.split(':').next().unwrap_or("").trim_end_matches(|c: char| c.is_ascii_digit() || c == '-');
            let (exp, why) = expected(bytes);
            let w = || json!({"label": label, "expected": format!("{exp:?}"), "reason": why, "input_hex": hex::encode(bytes)});
            match out {
                Outcome::Done { value, .. } => {
                    if value["parsed"].as_bool() != Some(true) {
                        *local.entry(format!("{profile}.{fam}.{}", if value["parse_panicked"].as_bool() == Some(true) { "parser-panicked(judged by C04)" } else { "not-parsed" })).or_insert(0) += 1;
                        continue;
                    }
                    let verdict = value["verdict"].as_str().unwrap_or("?");
                    *local.entry(format!("{profile}.{fam}.expected-{exp:?}.got-{}", verdict.split(':').next().unwrap_or(""))).or_insert(0) += 1;
                    if exp != Exp::DontCare {
                        rep.nontrivial(hash_bytes(bytes));
                    }
                    let bad = match exp {
                        Exp::Ok => verdict != "ok",
                        Exp::Mismatch => verdict != "mismatch",
                        Exp::ErrAny => verdict == "ok",
                        Exp::DontCare => false,
                    };
                    if bad {
                        let key = match exp {
                            Exp::Ok => format!("fails-although-all-digests-match:{verdict}"),
                            Exp::Mismatch => format!("digest-differs-but-verdict-is:{verdict}"),
                            _ => "unsupported-algorithm-accepted".to_string(),
                        };
                        rep.violation(key, format!("[{label}, {profile}] verify_digests() = {verdict}, expected {exp:?} ({why})"), w(), bytes.len() as u64);
                    }
                }
                Outcome::Panic { ref message, ref file, ref frame, .. } => {
                    // "never success" for an unsupported algorithm includes "not a panic" (statement + C04)
                    rep.violation(format!("panic:{}", crate::util::par::site_of(file, frame, message)), format!("[{label}, {profile}] verify_digests panics: {message} (expected {exp:?}: {why})"), w(), bytes.len() as u64);
                }
                other => *local.entry(format!("{profile}.{fam}.crashed(judged by C04).{}", other.site().split(':').next().unwrap_or(""))).or_insert(0) += 1,
            }
        }
        rep.counts(&local);
    }
    // history: in ONE process and on one thread, an intact package is verified first and damaged copies
    // of the same package (same recorded digests, same lengths) afterwards, then the intact one again:
    // what an earlier call found must not decide a later one
    for (label, base) in flip_bases.iter().take(ctx.tier.pick(3, 12)) {
        let Ok(p) = walk_package(base) else { continue };
        let mut seq: Vec<Vec<u8>> = vec![base.clone()];
        let plen = base.len() - p.payload_start;
        for k in 0..plen.min(64) {
            let mut m = base.clone();
            m[p.payload_start + (k * 37) % plen] ^= 1 << (k % 8);
            seq.push(m);
            if k % 16 == 15 {
                seq.push(base.clone());
            }
        }
        for k in 0..32usize {
            let mut m = base.clone();
            let at = p.hdr.start + 16 + (k * 53) % (p.hdr.end - p.hdr.start - 16).max(1);
            m[at] ^= 1 << (k % 8);
            seq.push(m);
        }
        seq.push(base.clone());
        for (n, bytes) in seq.iter().enumerate() {
            rep.eval(1);
            let (exp, why) = expected(bytes);
            let value = match crate::util::par::guard(|| judge_c03(bytes)) {
                Ok(v) => v,
                Err(_) => continue, // parser panics on damaged headers are C04's
            };
            if value["parsed"].as_bool() != Some(true) {
                continue;
            }
            let verdict = value["verdict"].as_str().unwrap_or("?");
            let bad = match exp {
                Exp::Ok => verdict != "ok",
                Exp::Mismatch => verdict != "mismatch",
                Exp::ErrAny => verdict == "ok",
                Exp::DontCare => false,
            };
            rep.count("history.calls_in_sequence", 1);
            if bad {
                rep.violation(format!("history:verdict-{verdict}-expected-{exp:?}"), format!("[{label}, call #{n} of a sequence that starts with the intact package] verify_digests() = {verdict}, expected {exp:?} ({why})"), json!({"label": label, "expected": format!("{exp:?}"), "reason": why, "input_hex": hex::encode(bytes), "history": "intact package verified first in the same process"}), bytes.len() as u64);
            }
        }
    }
    for i in [0usize, inputs.len() / 5, inputs.len() - 1] {
        let (l, b) = &inputs[i];
        rep.sample(json!({"label": l, "len": b.len(), "expected": format!("{:?}", expected(b)), "head_hex": crate::util::hex_trunc(b, 120)}));
    }
}

fn replay(_ctx: &Ctx, w: &serde_json::Value, rep: &Report) {
    let bytes = hex::decode(w["input_hex"].as_str().unwrap_or("")).unwrap_or_default();
    let (exp, why) = expected(&bytes);
    let case = Case { id: 0, budget: 0, bytes };
    for (profile, bin) in worker_binaries() {
        for (_, o) in run_cases(&bin, "c03", std::slice::from_ref(&case), 1, Duration::from_secs(60)) {
            println!("monitor[{profile}]: expected {exp:?} ({why}); library: {o:?}");
            if let Outcome::Done { value, .. } = &o {
                let v = value["verdict"].as_str().unwrap_or("?");
                let bad = match exp {
                    Exp::Ok => v != "ok",
                    Exp::Mismatch => v != "mismatch",
                    Exp::ErrAny => v == "ok",
                    Exp::DontCare => false,
                };
                if bad && value["parsed"].as_bool() == Some(true) {
                    rep.violation("replay", format!("verdict {v}, expected {exp:?}"), w.clone(), 0);
                }
            } else if let Outcome::Panic { message, .. } = &o {
                rep.violation("replay-panic", message.clone(), w.clone(), 0);
            }
        }
    }
}
