//! C06 — everything given to the builder is read back unchanged (configuration-as-model).

use super::CheckDef;
use crate::gen::build::*;
use crate::util::par::{guard, par_for};
use crate::util::report::{Ctx, Meta, Report};
use crate::util::rng::{hash_bytes, Rng};
use rpm::{IndexTag, Package};
use serde_json::json;
use std::collections::BTreeMap;

pub fn def() -> CheckDef {
    CheckDef { id: "C06", run, meta, dbg: false, replay: Some(replay) }
}

fn meta(_ctx: &Ctx) -> Meta {
    Meta {
        level: "exploration",
        rule: "seeded random PackageBuilder configurations (any subset of optional metadata, strings incl. empty/multi-line/multi-byte/1 KiB, 0..6 files at depth 0..6 incl. the root directory, '/'- and './'-style destinations, explicit and inherited modes, dirs, symlinks, link targets on entries of other types, owners, flags, caps, 0..8 dependencies of the eight kinds, nine scriptlets with flags/interpreters, changelog, every compression type and level, signed and unsigned) are built, written, parsed again and every supplied value is compared with the matching accessor. distinct_nontrivial = distinct configurations (by content hash) that built, were re-parsed and reached the field comparison".into(),
        assumptions: vec!["source files and their mtimes/permissions are created by the harness on the local file system".into()],
        floor_distinct: 50,
    }
}

struct Mismatch {
    key: String,
    what: String,
}

fn mm(v: &mut Vec<Mismatch>, key: &str, what: String) {
    v.push(Mismatch { key: key.to_string(), what });
}

fn cmp_str(v: &mut Vec<Mismatch>, field: &str, supplied: &Option<String>, got: Result<&str, rpm::Error>) {
    if let Some(s) = supplied {
        match got {
            Ok(g) if g == s => {}
            Ok(g) => mm(v, &format!("{field}:wrong-value"), format!("{field}: supplied {s:?}, read back {g:?}")),
            Err(e) => mm(v, &format!("{field}:not-returned"), format!("{field}: supplied {s:?}, accessor fails: {e}")),
        }
    }
}

fn is_subsequence(need: &[(String, u32, String)], have: &[(String, u32, String)]) -> bool {
    let mut it = have.iter();
    need.iter().all(|n| it.any(|h| h == n))
}

/// compare a re-parsed package with the configuration it was built from
pub fn compare(cfg: &BuildCfg, pkg: &Package) -> Vec<(String, String)> {
    let m = &pkg.metadata;
    let mut v = Vec::new();
    cmp_str(&mut v, "name", &Some(cfg.name.clone()), m.get_name());
    cmp_str(&mut v, "version", &Some(cfg.version.clone()), m.get_version());
    cmp_str(&mut v, "license", &Some(cfg.license.clone()), m.get_license());
    cmp_str(&mut v, "arch", &Some(cfg.arch.clone()), m.get_arch());
    cmp_str(&mut v, "summary", &Some(cfg.summary.clone()), m.get_summary());
    cmp_str(&mut v, "release", &cfg.release, m.get_release());
    cmp_str(&mut v, "description", &cfg.description, m.get_description());
    cmp_str(&mut v, "vendor", &cfg.vendor, m.get_vendor());
    cmp_str(&mut v, "packager", &cfg.packager, m.get_packager());
    cmp_str(&mut v, "group", &cfg.group, m.get_group());
    cmp_str(&mut v, "url", &cfg.url, m.get_url());
    cmp_str(&mut v, "vcs", &cfg.vcs, m.get_vcs());
    cmp_str(&mut v, "cookie", &cfg.cookie, m.get_cookie());
    cmp_str(&mut v, "build_host", &cfg.build_host, m.get_build_host());
    if let Some(e) = cfg.epoch {
        match m.get_epoch() {
            Ok(g) if g == e => {}
            other => mm(&mut v, "epoch:wrong-value", format!("epoch: supplied {e}, read back {:?}", other.map_err(|e| e.to_string()))),
        }
    }
    // scriptlets
    for s in &cfg.scripts {
        let names = ["pre_install", "post_install", "pre_uninstall", "post_uninstall", "pre_trans", "post_trans", "pre_untrans", "post_untrans", "verify"];
        let field = format!("scriptlet.{}", names[s.which as usize]);
        let got: Result<(String, Option<u32>, Option<Vec<String>>), String> = if s.which < 8 {
            let r = match s.which {
                0 => m.get_pre_install_script(),
                1 => m.get_post_install_script(),
                2 => m.get_pre_uninstall_script(),
                3 => m.get_post_uninstall_script(),
                4 => m.get_pre_trans_script(),
                5 => m.get_post_trans_script(),
                6 => m.get_pre_untrans_script(),
                _ => m.get_post_untrans_script(),
            };
            r.map(|sc| (sc.script, sc.flags.map(|f| f.bits()), sc.program)).map_err(|e| e.to_string())
        } else {
            // there is no dedicated accessor for %verifyscript: read it through the generic getters
            m.header
                .get_entry_data_as_string(IndexTag::RPMTAG_VERIFYSCRIPT)
                .map(|sc| {
                    (
                        sc.to_string(),
                        m.header.get_entry_data_as_u32(IndexTag::RPMTAG_VERIFYSCRIPTFLAGS).ok(),
                        m.header.get_entry_data_as_string_array(IndexTag::RPMTAG_VERIFYSCRIPTPROG).ok().map(|p| p.to_vec()),
                    )
                })
                .map_err(|e| e.to_string())
        };
        match got {
            Err(e) => mm(&mut v, &format!("{field}:not-returned"), format!("{field}: supplied {:?}, accessor fails: {e}", s.script)),
            Ok((script, flags, prog)) => {
                if script != s.script {
                    mm(&mut v, &format!("{field}:wrong-script"), format!("{field}: supplied {:?}, read back {script:?}", s.script));
                }
                if flags != s.flags {
                    mm(&mut v, &format!("{field}:wrong-flags"), format!("{field}: flags supplied {:?}, read back {flags:?}", s.flags));
                }
                if prog != s.prog {
                    mm(&mut v, &format!("{field}:wrong-interpreter"), format!("{field}: interpreter supplied {:?}, read back {prog:?}", s.prog));
                }
            }
        }
    }
    // dependencies
    let kinds = ["provides", "requires", "conflicts", "obsoletes", "recommends", "suggests", "enhances", "supplements"];
    for (k, kname) in kinds.iter().enumerate() {
        let need: Vec<(String, u32, String)> = cfg.deps.iter().filter(|d| d.kind as usize == k).map(dep_expected).collect();
        if need.is_empty() {
            continue;
        }
        let got = match k {
            0 => m.get_provides(),
            1 => m.get_requires(),
            2 => m.get_conflicts(),
            3 => m.get_obsoletes(),
            4 => m.get_recommends(),
            5 => m.get_suggests(),
            6 => m.get_enhances(),
            _ => m.get_supplements(),
        };
        match got {
            Err(e) => mm(&mut v, &format!("deps.{kname}:not-returned"), format!("{kname}: accessor fails: {e}")),
            Ok(list) => {
                let have: Vec<(String, u32, String)> = list.into_iter().map(|d| (d.name, d.flags.bits(), d.version)).collect();
                if !is_subsequence(&need, &have) {
                    mm(&mut v, &format!("deps.{kname}:missing-or-reordered"), format!("{kname}: supplied {need:?} is not contained in order in {have:?}"));
                }
            }
        }
    }
    // changelog
    if !cfg.changelog.is_empty() {
        match m.get_changelog_entries() {
            Err(e) => mm(&mut v, "changelog:not-returned", format!("changelog accessor fails: {e}")),
            Ok(list) => {
                let have: Vec<(String, String, u64)> = list.into_iter().map(|c| (c.name, c.description, c.timestamp)).collect();
                let need: Vec<(String, String, u64)> = cfg.changelog.iter().map(|(n, t, ts)| (n.clone(), t.clone(), *ts as u64)).collect();
                if have != need {
                    mm(&mut v, "changelog:wrong", format!("changelog supplied {need:?}, read back {have:?}"));
                }
            }
        }
    }
    // files
    match m.get_file_entries() {
        Err(e) => {
            if !cfg.files.is_empty() {
                mm(&mut v, "files:not-returned", format!("get_file_entries fails: {e}"))
            }
        }
        Ok(entries) => {
            if entries.len() != cfg.files.len() {
                mm(&mut v, "files:count", format!("{} files supplied, {} read back", cfg.files.len(), entries.len()));
            }
            for f in &cfg.files {
                let want_path = installed_path(&f.dest);
                let Some(e) = entries.iter().find(|e| e.path.to_str() == Some(want_path.as_str())) else {
                    let depth = want_path.matches('/').count();
                    mm(
                        &mut v,
                        if depth == 1 { "file.path:root-level-file-missing" } else { "file.path:missing" },
                        format!("file {want_path:?} not among the paths read back: {:?}", entries.iter().map(|e| e.path.display().to_string()).collect::<Vec<_>>()),
                    );
                    continue;
                };
                let content = file_content(f);
                if e.mode.raw_mode() != expected_mode(f) {
                    mm(&mut v, if f.mode.is_some() { "file.mode:explicit" } else { "file.mode:inherited" }, format!("{want_path}: mode {:#o} expected, {:#o} read back", expected_mode(f), e.mode.raw_mode()));
                }
                let (wu, wg) = (f.user.clone().unwrap_or("root".into()), f.group.clone().unwrap_or("root".into()));
                if e.ownership.user != wu {
                    mm(&mut v, "file.user", format!("{want_path}: user {wu:?} expected, {:?} read back", e.ownership.user));
                }
                if e.ownership.group != wg {
                    mm(&mut v, "file.group", format!("{want_path}: group {wg:?} expected, {:?} read back", e.ownership.group));
                }
                if e.flags.bits() != file_flags_expected(f) {
                    mm(&mut v, "file.flags", format!("{want_path}: flags {:#x} expected, {:#x} read back", file_flags_expected(f), e.flags.bits()));
                }
                match (&f.caps, &e.caps) {
                    (Some(c), Some(g)) if c == g => {}
                    (None, None) => {}
                    (None, Some(g)) if g.is_empty() => {}
                    (c, g) => mm(&mut v, "file.caps", format!("{want_path}: caps {c:?} expected, {g:?} read back")),
                }
                let wl = f.symlink.clone().unwrap_or_default();
                if e.linkto != wl {
                    mm(&mut v, "file.linkto", format!("{want_path}: link target {wl:?} expected, {:?} read back", e.linkto));
                }
                if e.size != content.len() {
                    mm(&mut v, "file.size", format!("{want_path}: size {} expected, {} read back", content.len(), e.size));
                }
                let regular = expected_mode(f) & 0o170000 == 0o100000;
                if regular {
                    let want_digest = crate::util::sha256_hex(&content);
                    match &e.digest {
                        Some(d) if d.as_hex() == want_digest && d.algorithm() == rpm::DigestAlgorithm::Sha2_256 => {}
                        d => mm(&mut v, "file.digest", format!("{want_path}: sha256 {want_digest} expected, {:?} read back", d)),
                    }
                }
                let want_mtime = match cfg.source_date {
                    Some(sd) => (f.mtime as u32).min(sd),
                    None => f.mtime as u32,
                };
                if e.modified_at.0 != want_mtime {
                    mm(&mut v, "file.mtime", format!("{want_path}: mtime {want_mtime} expected (source mtime {}, source date {:?}), {} read back", f.mtime, cfg.source_date, e.modified_at.0));
                }
            }
        }
    }
    v.into_iter().map(|m| (m.key, m.what)).collect()
}

pub fn cfg_hash(cfg: &BuildCfg) -> u64 {
    hash_bytes(&serde_json::to_vec(cfg).unwrap())
}

fn cfg_size(cfg: &BuildCfg) -> u64 {
    (cfg.files.len() * 100 + cfg.deps.len() * 10 + cfg.scripts.len() * 10 + cfg.changelog.len() * 10) as u64 + cfg.files.iter().map(|f| f.size as u64 / 1024).sum::<u64>()
}

fn judge_cfg(cfg: &BuildCfg, dir: &std::path::Path, key: Option<&Key>, rep: &Report, local: &mut BTreeMap<String, u64>) {
    let built = guard(|| match key {
        Some(k) => build_signed(cfg, dir, &k.signer),
        None => build(cfg, dir),
    });
    let w = || json!({"cfg": cfg, "signed_with": key.map(|k| k.name)});
    let pkg = match built {
        Err(p) => {
            rep.violation(format!("panic:build:{}", p.site()), format!("build panics: {}", p.message), w(), cfg_size(cfg));
            return;
        }
        Ok(Err(e)) => {
            rep.violation(format!("build-error:{}", crate::util::par::normalize_msg(&e.to_string())), format!("a valid configuration does not build: {e}"), w(), cfg_size(cfg));
            return;
        }
        Ok(Ok(p)) => p,
    };
    let rt = guard(|| {
        let bytes = pkg_bytes(&pkg)?;
        Package::parse(&mut &bytes[..])
    });
    let parsed = match rt {
        Err(p) => {
            rep.violation(format!("panic:write-parse:{}", p.site()), format!("write/parse panics: {}", p.message), w(), cfg_size(cfg));
            return;
        }
        Ok(Err(e)) => {
            rep.violation(format!("reparse-error:{}", crate::util::par::normalize_msg(&e.to_string())), format!("the built package does not parse back: {e}"), w(), cfg_size(cfg));
            return;
        }
        Ok(Ok(p)) => p,
    };
    *local.entry(format!("built.{}", cfg.compression.as_ref().map(|c| c.0.as_str()).unwrap_or("default"))).or_insert(0) += 1;
    *local.entry("files_compared".into()).or_insert(0) += cfg.files.len() as u64;
    *local.entry(if key.is_some() { "signed" } else { "unsigned" }.into()).or_insert(0) += 1;
    if cfg.files.iter().any(|f| installed_path(&f.dest).matches('/').count() == 1) {
        *local.entry("with_root_level_file".into()).or_insert(0) += 1;
    }
    match guard(|| compare(cfg, &parsed)) {
        Ok(ms) => {
            rep.nontrivial(cfg_hash(cfg));
            for (k, what) in ms {
                rep.violation(k, what, w(), cfg_size(cfg));
            }
        }
        Err(p) => rep.violation(format!("panic:accessor:{}", p.site()), format!("an accessor panics: {}", p.message), w(), cfg_size(cfg)),
    }
}

fn run(ctx: &Ctx, rep: &Report) {
    let n: u64 = ctx.tier.pick(600, 40_000);
    let keys = match load_keys(&ctx.repo_dir) {
        Ok(k) => k,
        Err(e) => {
            rep.inconclusive(format!("cannot load test keys: {e}"));
            return;
        }
    };
    let base = ctx.work_dir("build");
    par_for(ctx.threads, n, 1, |i| {
        let mut rng = Rng::for_case(ctx.seed, "C06", i);
        let mut cfg = gen_cfg(&mut rng, &GenOpts { big_percent: 1, big_bytes: (200_000, 600_000), ..Default::default() });
        // an option combination the generator's file kinds never pair: a link target on an entry whose mode
        // (explicit or inherited, regular or directory) is not a link. It is a supplied value like any other
        // and must be read back (seeded change C06-t: FILELINKTOS filled in for link modes only)
        if i % 5 == 4 {
            if let Some(f) = cfg.files.iter_mut().find(|f| f.symlink.is_none()) {
                f.symlink = Some(["/usr/bin/target-b", "rel/target", "ünï"][(i / 5 % 3) as usize].to_string());
            }
        }
        let dir = base.join(format!("c{i}"));
        let mut local = BTreeMap::new();
        // every 8th configuration is signed (Ed25519 / ECDSA are cheap; RSA occasionally)
        let key = if i % 8 == 0 { Some(&keys[[2usize, 3, 2, 0][(i / 8 % 4) as usize]]) } else { None };
        judge_cfg(&cfg, &dir, key, rep, &mut local);
        rep.eval(1);
        rep.counts(&local);
        if i < 3 {
            rep.sample(json!({"cfg": cfg}));
        }
        let _ = std::fs::remove_dir_all(&dir);
    });
    let _ = std::fs::remove_dir_all(&base);
}

fn replay(ctx: &Ctx, w: &serde_json::Value, rep: &Report) {
    let cfg: BuildCfg = match serde_json::from_value(w["cfg"].clone()) {
        Ok(c) => c,
        Err(e) => {
            println!("cannot decode configuration: {e}");
            return;
        }
    };
    let keys = load_keys(&ctx.repo_dir).unwrap_or_default();
    let key = w["signed_with"].as_str().and_then(|n| keys.iter().find(|k| k.name == n));
    let dir = ctx.work_dir("replay");
    let mut local = BTreeMap::new();
    judge_cfg(&cfg, &dir, key, rep, &mut local);
    println!("monitor: {:?}", local);
    let _ = std::fs::remove_dir_all(&dir);
}
