//! C14 — serialisation does not depend on how the sink or source chunks I/O (scripted fault injection).

use super::CheckDef;
use crate::gen::build::*;
use crate::model::codec::*;
use crate::util::par::{guard, par_for};
use crate::util::report::{Ctx, Meta, Report};
use crate::util::rng::Rng;
use rpm::{Package, PackageMetadata};
use serde_json::json;
use std::collections::BTreeMap;
use std::io::{self, BufRead, Read, Write};

pub fn def() -> CheckDef {
    CheckDef { id: "C14", run, meta, dbg: true, replay: Some(replay) }
}

fn meta(_ctx: &Ctx) -> Meta {
    Meta {
        level: "fault_enumeration",
        rule: "writing: for each package (unsigned, signed, with files, asset) a scripted io::Write sink records every call and (1) fails hard at EVERY byte offset 0..=len, (2) accepts at most k bytes per call for k in {1,2,3,7,16,4095}, seeded random sizes, 1 byte for the first n calls then unlimited, (3) returns Interrupted before every j-th call, (4) accepts zero bytes at an offset; Package::write and PackageMetadata::write must return Ok with exactly the canonical bytes or Err with a prefix of them, never panic. reading: a scripted io::BufRead source (1-byte reads, fixed chunks, random chunks, Interrupted injection, BufReader capacities 1..17) must give the same result as parsing the contiguous bytes; truncation at EVERY offset must give the same result as the contiguous truncated bytes and an error when cut before the payload. Runs in release and verifdbg (debug assertions). OS level: write_file / write to /dev/full must be an error, writes into a pipe whose reader goes away must return with a prefix read, parsing from a pipe fed in irregular bursts by another thread and from a file must equal parsing the contiguous bytes, write_file must leave the canonical bytes. distinct_nontrivial = distinct (package, fault script) executions that cut inside the output / completed under a non-trivial chunking".into(),
        assumptions: vec!["canonical bytes = Package::write into a Vec".into()],
        floor_distinct: 1000,
    }
}

// ---------------------------------------------------------------------------------------------
// scripted sink

#[derive(Clone, Debug)]
enum Accept {
    All,
    Max(usize),
    Random(u64),
    /// 1 byte for the first n calls, then everything
    OneThenAll(usize),
}

#[derive(Clone, Debug)]
struct SinkScript {
    accept: Accept,
    /// hard failure once this many bytes were accepted
    fail_at: Option<usize>,
    /// the failure at `fail_at` happens once; later calls succeed again (a transient error is within
    /// the Write contract: no byte of the failed call was written)
    transient: bool,
    /// Ok(0) once this many bytes were accepted
    zero_at: Option<usize>,
    /// return Interrupted before every j-th call (each call is interrupted at most once)
    interrupt_every: Option<usize>,
    /// the sink implements write_vectored itself (like a pipe / socket / File) and accepts bytes
    /// across the buffers of one call up to its per-call limit
    vectored: bool,
}

struct Sink {
    script: SinkScript,
    out: Vec<u8>,
    calls: usize,
    rng: Rng,
    interrupted_this_call: bool,
    failed_once: bool,
    log: Vec<(usize, String)>,
    /// a writer that is called more often than this is being called forever
    call_budget: usize,
}

const SINK_BUDGET_MSG: &str = "sink call budget exhausted";

impl Sink {
    fn new(script: SinkScript) -> Sink {
        let seed = if let Accept::Random(s) = script.accept { s } else { 0 };
        Sink { script, out: Vec::new(), calls: 0, rng: Rng::new(seed), interrupted_this_call: false, failed_once: false, log: Vec::new(), call_budget: usize::MAX }
    }
    fn note(&mut self, asked: usize, what: String) {
        if self.log.len() < 64 {
            self.log.push((asked, what));
        }
    }
}

impl Write for Sink {
    fn write(&mut self, buf: &[u8]) -> io::Result<usize> {
        self.call_budget = self.call_budget.saturating_sub(1);
        if self.call_budget == 0 {
            // unwinds through the library into judge_write's guard
            panic!("{SINK_BUDGET_MSG}");
        }
        if let Some(j) = self.script.interrupt_every {
            if !self.interrupted_this_call && (self.calls + 1) % j == 0 {
                self.interrupted_this_call = true;
                self.note(buf.len(), "Interrupted".into());
                return Err(io::Error::new(io::ErrorKind::Interrupted, "scripted interrupt"));
            }
        }
        self.interrupted_this_call = false;
        self.calls += 1;
        if buf.is_empty() {
            return Ok(0);
        }
        if let Some(k) = self.script.fail_at {
            if self.out.len() >= k && !(self.script.transient && self.failed_once) {
                self.failed_once = true;
                self.note(buf.len(), "hard error".into());
                // the kind of the failure varies with the offset: no kind of error may be taken for success
                const KINDS: [io::ErrorKind; 10] = [
                    io::ErrorKind::Other,
                    io::ErrorKind::BrokenPipe,
                    io::ErrorKind::ConnectionReset,
                    io::ErrorKind::WriteZero,
                    io::ErrorKind::UnexpectedEof,
                    io::ErrorKind::TimedOut,
                    io::ErrorKind::PermissionDenied,
                    io::ErrorKind::WouldBlock,
                    io::ErrorKind::ConnectionAborted,
                    io::ErrorKind::InvalidInput,
                ];
                return Err(io::Error::new(KINDS[k % KINDS.len()], "scripted failure"));
            }
        }
        if let Some(k) = self.script.zero_at {
            if self.out.len() >= k {
                self.note(buf.len(), "Ok(0)".into());
                return Ok(0);
            }
        }
        let mut n = match self.script.accept {
            Accept::All => buf.len(),
            Accept::Max(k) => buf.len().min(k),
            Accept::Random(_) => 1 + self.rng.usize(buf.len().min(if self.script.vectored { 1500 } else { 64 })),
            Accept::OneThenAll(first) => {
                if self.calls <= first {
                    1
                } else {
                    buf.len()
                }
            }
        };
        // never accept past a scripted failure point, so that the cut is exact
        for lim in [self.script.fail_at, self.script.zero_at].into_iter().flatten() {
            if lim > self.out.len() {
                n = n.min(lim - self.out.len());
            }
        }
        let n = n.max(1).min(buf.len());
        self.out.extend_from_slice(&buf[..n]);
        self.note(buf.len(), format!("Ok({n})"));
        Ok(n)
    }
    fn flush(&mut self) -> io::Result<()> {
        Ok(())
    }
    fn write_vectored(&mut self, bufs: &[io::IoSlice<'_>]) -> io::Result<usize> {
        if !self.script.vectored {
            // the default behaviour of std: the first non-empty buffer
            let buf = bufs.iter().find(|b| !b.is_empty()).map_or(&[][..], |b| &**b);
            return self.write(buf);
        }
        // one logical write of the concatenation, limited by the script (a short count may end
        // inside any of the buffers)
        let all: Vec<u8> = bufs.iter().flat_map(|b| b.iter().copied()).collect();
        self.write(&all)
    }
}

fn judge_write(what: &str, canonical: &[u8], script: &SinkScript, f: &dyn Fn(&mut Sink) -> Result<(), rpm::Error>) -> Option<(String, String, Vec<(usize, String)>)> {
    let mut sink = Sink::new(script.clone());
    // no correct writer needs more calls than this: every byte once, every call interrupted once,
    // plus the calls that a failure may cost
    sink.call_budget = 4 * canonical.len() + 4096;
    let r = guard(|| f(&mut sink));
    let class = match (&script.accept, script.fail_at, script.zero_at, script.interrupt_every) {
        (_, Some(_), _, _) if script.transient => "transient-failure",
        (_, Some(_), _, _) => "hard-failure",
        (_, _, Some(_), _) => "zero-length-accept",
        (_, _, _, Some(_)) => "interrupted",
        (Accept::All, ..) => "plain",
        _ => "partial-writes",
    };
    match r {
        Err(p) if p.message.contains(SINK_BUDGET_MSG) => Some((format!("{what}:does-not-terminate:{class}"), format!("{what} keeps calling the sink under script {script:?}: more than {} calls for {} canonical bytes", 4 * canonical.len() + 4096, canonical.len()), sink.log)),
        Err(p) => Some((format!("{what}:panic:{class}:{}", p.site()), format!("{what} panics under sink script {script:?}: {}", p.message), sink.log)),
        Ok(Ok(())) => {
            if sink.out != canonical {
                let at = sink.out.iter().zip(canonical).position(|(a, b)| a != b).unwrap_or(sink.out.len().min(canonical.len()));
                Some((format!("{what}:ok-with-wrong-bytes:{class}"), format!("{what} returns Ok under sink script {script:?} but emitted {} bytes (canonical {}), first difference at offset {at}", sink.out.len(), canonical.len()), sink.log))
            } else {
                None
            }
        }
        Ok(Err(_)) => {
            if !canonical.starts_with(&sink.out) {
                Some((format!("{what}:err-with-non-prefix:{class}"), format!("{what} fails under sink script {script:?} after emitting {} bytes that are not a prefix of the canonical bytes", sink.out.len()), sink.log))
            } else {
                None
            }
        }
    }
}

// ---------------------------------------------------------------------------------------------
// scripted source

#[derive(Clone, Debug)]
enum Chunk {
    Fixed(usize),
    Random(u64),
}

struct Source<'a> {
    data: &'a [u8],
    pos: usize,
    chunk: Chunk,
    rng: Rng,
    interrupt_every: Option<usize>,
    calls: usize,
    cur: usize,
}

impl<'a> Source<'a> {
    fn new(data: &'a [u8], chunk: Chunk, interrupt_every: Option<usize>) -> Self {
        let seed = if let Chunk::Random(s) = chunk { s } else { 0 };
        Source { data, pos: 0, chunk, rng: Rng::new(seed), interrupt_every, calls: 0, cur: 0 }
    }
    fn next_len(&mut self) -> usize {
        let rem = self.data.len() - self.pos;
        match self.chunk {
            Chunk::Fixed(k) => k.min(rem),
            Chunk::Random(_) => (1 + self.rng.usize(40)).min(rem),
        }
    }
    fn maybe_interrupt(&mut self) -> io::Result<()> {
        self.calls += 1;
        if let Some(j) = self.interrupt_every {
            if self.calls % j == 0 {
                return Err(io::Error::new(io::ErrorKind::Interrupted, "scripted interrupt"));
            }
        }
        Ok(())
    }
}

impl Read for Source<'_> {
    fn read(&mut self, buf: &mut [u8]) -> io::Result<usize> {
        self.maybe_interrupt()?;
        let n = if self.cur > 0 { self.cur } else { self.next_len() };
        let n = n.min(buf.len());
        buf[..n].copy_from_slice(&self.data[self.pos..self.pos + n]);
        self.pos += n;
        self.cur = self.cur.saturating_sub(n);
        Ok(n)
    }
}

impl BufRead for Source<'_> {
    fn fill_buf(&mut self) -> io::Result<&[u8]> {
        self.maybe_interrupt()?;
        if self.cur == 0 {
            self.cur = self.next_len();
        }
        Ok(&self.data[self.pos..self.pos + self.cur])
    }
    fn consume(&mut self, amt: usize) {
        self.pos += amt;
        self.cur -= amt.min(self.cur);
    }
}

fn err_kind(e: &rpm::Error) -> String {
    match e {
        rpm::Error::Io(io) => format!("Io:{:?}", io.kind()),
        other => format!("{other:?}").split(|c: char| !c.is_alphanumeric()).next().unwrap_or("").to_string(),
    }
}

fn same_result(a: &Result<Package, rpm::Error>, b: &Result<Package, rpm::Error>) -> bool {
    match (a, b) {
        (Ok(x), Ok(y)) => x.metadata == y.metadata && x.content == y.content,
        (Err(x), Err(y)) => err_kind(x) == err_kind(y),
        _ => false,
    }
}

fn judge_read(data: &[u8], payload_start: usize, how: &str, mk: &dyn Fn(&[u8]) -> Result<Package, rpm::Error>) -> Option<(String, String)> {
    let reference = guard(|| Package::parse(&mut &data[..]));
    let got = guard(|| mk(data));
    match (reference, got) {
        (Ok(r), Ok(g)) => {
            if !same_result(&r, &g) {
                return Some((format!("read:chunking-changes-result:{how}"), format!("parsing {} bytes through a {how} source gives {} but the contiguous bytes give {}", data.len(), show(&g), show(&r))));
            }
            if data.len() < payload_start && g.is_ok() {
                return Some(("read:truncated-input-accepted".to_string(), format!("an input cut at {} (payload starts at {payload_start}) parses successfully", data.len())));
            }
            None
        }
        (_, Err(p)) => Some((format!("read:panic:{how}:{}", p.site()), format!("parsing through a {how} source panics: {}", p.message))),
        (Err(_), _) => None,
    }
}

fn show(r: &Result<Package, rpm::Error>) -> String {
    match r {
        Ok(p) => format!("Ok({} payload bytes)", p.content.len()),
        Err(e) => format!("Err({})", err_kind(e)),
    }
}

fn run(ctx: &Ctx, rep: &Report) {
    let keys = load_keys(&ctx.repo_dir).unwrap_or_default();
    let mut pkgs: Vec<(String, Vec<u8>)> = crate::checks::c01::small_packages(ctx, &keys);
    if let Ok(b) = std::fs::read(ctx.asset("test_assets/fixture_packages/rpm-empty-0-0.x86_64.rpm")) {
        pkgs.push(("asset-rpm-empty".into(), b));
    }
    let extra = ctx.tier.pick(0, if ctx.is_dbg() { 60 } else { 600 });
    let dir = ctx.work_dir("built");
    for i in 0..extra {
        let mut r = Rng::for_case(ctx.seed, "C14-built", i);
        let cfg = gen_cfg(&mut r, &GenOpts { max_files: 3, all_levels: false, ..Default::default() });
        if let Ok(p) = build(&cfg, &dir) {
            if let Ok(b) = pkg_bytes(&p) {
                if b.len() < 20_000 {
                    pkgs.push((format!("built-random-{i}"), b));
                }
            }
        }
    }
    // hand-encoded packages whose headers do NOT end in a region trailer: the data section ends in a
    // string, in alignment slack before nothing, or in unreferenced bytes (a cut there removes bytes
    // that no index entry points at)
    {
        use crate::model::codec::{enc_header, enc_lead, enc_package, layout, Val};
        for (k, slack) in [0usize, 1, 5, 16].into_iter().enumerate() {
            let items: Vec<(u32, Val)> = vec![(1000, Val::Str(b"tail".to_vec())), (1001, Val::Int32(vec![7, 8])), (1002, Val::Str(b"the last string of the data section".to_vec()))];
            let (e, mut st) = layout(&items);
            st.extend(std::iter::repeat(0x5a).take(slack));
            let (se, mut ss) = layout(&[(1004, Val::Bin(vec![1, 2, 3, 4, 5]))]);
            ss.extend(std::iter::repeat(0x6b).take(slack % 3));
            pkgs.push((format!("hand-encoded-tail-{k}"), enc_package(&enc_lead("tail"), &enc_header(&se, &ss), &enc_header(&e, &st), b"payload after a header that ends in slack")));
        }
    }
    // one package whose payload spans several 64 KiB blocks (uncompressed, incompressible content)
    {
        let mut r = Rng::for_case(ctx.seed, "C14-large", 0);
        let mut cfg = gen_cfg(&mut r, &GenOpts { max_files: 0, ..Default::default() });
        cfg.files.clear();
        cfg.compression = Some(("none".into(), 0));
        cfg.files.push(FileCfg { dest: "/opt/large/blob.bin".into(), content_kind: "noise".into(), size: 1_100_000 + r.usize(200_000), content_seed: r.next(), mode: Some(0o100644), source_perm: 0o644, user: None, group: None, flags: vec![], caps: None, symlink: None, mtime: 1_500_000_000, verify: None });
        if let Ok(p) = build(&cfg, &dir) {
            if let Ok(b) = pkg_bytes(&p) {
                pkgs.push(("built-large-payload".into(), b));
            }
        }
    }
    let _ = std::fs::remove_dir_all(&dir);
    if pkgs.len() < 3 {
        rep.inconclusive("could not prepare the packages");
        return;
    }
    rep.count("packages", pkgs.len() as u64);
    par_for(ctx.threads, pkgs.len() as u64, 1, |pi| {
        let (label, bytes) = &pkgs[pi as usize];
        let Ok(pkg) = Package::parse(&mut &bytes[..]) else { return };
        let mut canonical = Vec::new();
        if pkg.write(&mut canonical).is_err() {
            return;
        }
        let mut meta_canonical = Vec::new();
        let _ = pkg.metadata.write(&mut meta_canonical);
        let payload_start = walk_package(&canonical).map(|p| p.payload_start).unwrap_or(0);
        let mut local: BTreeMap<String, u64> = BTreeMap::new();
        let mut scripts: Vec<SinkScript> = Vec::new();
        let plain = SinkScript { accept: Accept::All, fail_at: None, transient: false, zero_at: None, interrupt_every: None, vectored: false };
        // (1) hard failure at every offset (with full and with 1..7-byte acceptance)
        // packages with a large payload are cut at sampled offsets (plus the offsets around 64 KiB multiples)
        let large = canonical.len() > 50_000;
        let mut cut_offsets: Vec<usize> = if large { (0..=canonical.len()).step_by(1009).collect() } else { (0..=canonical.len()).collect() };
        if large {
            for m in 1..=canonical.len() / 65536 {
                for d in [-1i64, 0, 1] {
                    cut_offsets.push((m as i64 * 65536 + d) as usize);
                    cut_offsets.push(((payload_start + m * 65536) as i64 + d).min(canonical.len() as i64) as usize);
                }
            }
            cut_offsets.push(canonical.len());
            cut_offsets.sort();
            cut_offsets.dedup();
        }
        for k in cut_offsets.iter().copied() {
            scripts.push(SinkScript { fail_at: Some(k), ..plain.clone() });
            // the same failure, but only once
            scripts.push(SinkScript { fail_at: Some(k), transient: true, ..plain.clone() });
            if k % 3 == 0 {
                scripts.push(SinkScript { accept: Accept::Max(1 + k % 7), fail_at: Some(k), ..plain.clone() });
            }
            if k % 16 == 0 {
                scripts.push(SinkScript { zero_at: Some(k), ..plain.clone() });
            }
        }
        // (2) chunk patterns
        for k in [1usize, 2, 3, 7, 16, 4095, 65535, 65536, 65537] {
            scripts.push(SinkScript { accept: Accept::Max(k), ..plain.clone() });
            scripts.push(SinkScript { accept: Accept::Max(k), interrupt_every: Some(3), ..plain.clone() });
        }
        for s in 0..100u64 {
            scripts.push(SinkScript { accept: Accept::Random(ctx.seed ^ (s << 8) ^ pi), ..plain.clone() });
        }
        for n in [1usize, 2, 3, 4, 5, 8, 13, 40, 100] {
            scripts.push(SinkScript { accept: Accept::OneThenAll(n), ..plain.clone() });
        }
        // (2b) sinks with their own write_vectored and a per-call limit
        for k in [1usize, 3, 7, 16, 17, 48, 49, 64, 100, 128, 500, 1000, 1024, 4096] {
            scripts.push(SinkScript { accept: Accept::Max(k), vectored: true, ..plain.clone() });
        }
        for s in 0..40u64 {
            scripts.push(SinkScript { accept: Accept::Random(ctx.seed ^ 0x77 ^ (s << 9) ^ pi), vectored: true, ..plain.clone() });
        }
        scripts.push(SinkScript { vectored: true, ..plain.clone() });
        // (3) interrupts
        for j in [1usize, 2, 3, 5, 17] {
            scripts.push(SinkScript { interrupt_every: Some(j), ..plain.clone() });
        }
        scripts.push(plain.clone());
        for (si, sc) in scripts.iter().enumerate() {
            for (what, canon, f) in [
                ("Package::write", &canonical, &(|s: &mut Sink| pkg.write(s)) as &dyn Fn(&mut Sink) -> Result<(), rpm::Error>),
                ("PackageMetadata::write", &meta_canonical, &(|s: &mut Sink| pkg.metadata.write(s)) as &dyn Fn(&mut Sink) -> Result<(), rpm::Error>),
            ] {
                if what == "PackageMetadata::write" && sc.fail_at.map(|k| k > canon.len()).unwrap_or(false) {
                    continue;
                }
                rep.eval(1);
                *local.entry(format!("write.{}", if sc.fail_at.is_some() { "hard-failure-offsets" } else if sc.zero_at.is_some() { "zero-accept" } else { "chunk/interrupt-patterns" })).or_insert(0) += 1;
                rep.nontrivial(pi << 40 | (si as u64) << 1 | (what.len() as u64 & 1));
                if let Some((k, msg, log)) = judge_write(what, canon, sc, f) {
                    rep.violation(k, format!("[{label}] {msg}"), json!({"package": label, "package_hex": hex::encode(bytes), "script": format!("{sc:?}"), "script_index": si, "sink_call_log(asked, answer)": log}), (bytes.len() + si) as u64);
                }
            }
        }
        // reading
        let mut read_scripts: Vec<(String, Chunk, Option<usize>)> = vec![("1-byte".into(), Chunk::Fixed(1), None), ("2-byte".into(), Chunk::Fixed(2), None), ("7-byte".into(), Chunk::Fixed(7), None), ("4096-byte".into(), Chunk::Fixed(4096), None), ("1-byte+interrupts".into(), Chunk::Fixed(1), Some(3)), ("16-byte+interrupts".into(), Chunk::Fixed(16), Some(2))];
        for s in 0..20u64 {
            read_scripts.push(("random-chunks".into(), Chunk::Random(ctx.seed ^ s), if s % 3 == 0 { Some(5) } else { None }));
        }
        for (how, chunk, intr) in &read_scripts {
            rep.eval(1);
            *local.entry("read.chunk-patterns".into()).or_insert(0) += 1;
            rep.nontrivial(pi << 40 | 1 << 39 | crate::util::rng::hash_str(&format!("{how}{chunk:?}{intr:?}")) >> 30);
            if let Some((k, msg)) = judge_read(bytes, payload_start, how, &|d| Package::parse(&mut Source::new(d, chunk.clone(), *intr))) {
                rep.violation(k, format!("[{label}] {msg}"), json!({"package": label, "package_hex": hex::encode(bytes), "source": how}), bytes.len() as u64);
            }
        }
        for cap in 1..=17usize {
            rep.eval(1);
            *local.entry("read.bufreader-capacities".into()).or_insert(0) += 1;
            if let Some((k, msg)) = judge_read(bytes, payload_start, "BufReader", &|d| Package::parse(&mut io::BufReader::with_capacity(cap, Source::new(d, Chunk::Fixed(3), None)))) {
                rep.violation(k, format!("[{label}] capacity {cap}: {msg}"), json!({"package": label, "package_hex": hex::encode(bytes), "source": format!("BufReader({cap})")}), bytes.len() as u64);
            }
        }
        // truncation at every offset, contiguous and chunked
        for cut in (0..=bytes.len()).step_by(if large { 1009 } else { 1 }) {
            rep.eval(1);
            *local.entry("read.truncation-offsets".into()).or_insert(0) += 1;
            rep.nontrivial(pi << 40 | 1 << 38 | cut as u64);
            let d = &bytes[..cut];
            let chunk = if cut % 2 == 0 { Chunk::Fixed(1 + cut % 5) } else { Chunk::Random(cut as u64) };
            if let Some((k, msg)) = judge_read(d, payload_start, "truncated", &|d| Package::parse(&mut Source::new(d, chunk.clone(), None))) {
                rep.violation(k, format!("[{label}] cut at {cut}: {msg}"), json!({"package": label, "package_hex": hex::encode(bytes), "cut": cut}), cut as u64);
            }
            // metadata-only API on truncated input
            if cut < payload_start {
                if let Ok(Ok(_)) = guard(|| PackageMetadata::parse(&mut &d[..])) {
                    rep.violation("read:truncated-metadata-accepted", format!("[{label}] PackageMetadata::parse accepts an input cut at {cut} (metadata ends at {payload_start})"), json!({"package": label, "package_hex": hex::encode(bytes), "cut": cut}), cut as u64);
                }
            }
        }
        rep.counts(&local);
        if pi == 0 {
            rep.sample(json!({"package": label, "len": bytes.len(), "sink_scripts": scripts.len(), "example_script": format!("{:?}", scripts[scripts.len() / 2])}));
        }
    });
    os_level(ctx, rep, &pkgs);
}

/// the same contract against sinks and sources of the operating system instead of scripted ones:
/// a full device, a pipe nobody reads, a pipe fed in irregular bursts by another thread, a file
fn os_level(ctx: &Ctx, rep: &Report, pkgs: &[(String, Vec<u8>)]) {
    use std::io::Write;
    let dir = ctx.work_dir("os");
    let take = ctx.tier.pick(6, 60);
    for (pi, (label, bytes)) in pkgs.iter().enumerate().filter(|(i, (l, _))| *i < take || l.starts_with("built-large") || l.starts_with("hand-encoded-tail")) {
        let Ok(pkg) = Package::parse(&mut &bytes[..]) else { continue };
        let w = |what: &str| json!({"package": label, "package_hex": hex::encode(bytes), "os_level": what});
        // (a) /dev/full: every write fails with ENOSPC
        if std::path::Path::new("/dev/full").exists() {
            rep.eval(2);
            match guard(|| pkg.write_file("/dev/full")) {
                Err(p) => rep.violation(format!("panic:write_file:{}", p.site()), format!("[{label}] write_file(/dev/full) panics: {}", p.message), w("dev-full"), 0),
                Ok(Ok(())) => rep.violation("write:success-on-full-device", format!("[{label}] write_file(/dev/full) reports success"), w("dev-full"), 0),
                Ok(Err(_)) => rep.count("os.dev_full.error_returned", 1),
            }
            match guard(|| std::fs::OpenOptions::new().write(true).open("/dev/full").map_err(rpm::Error::from).and_then(|mut f| pkg.write(&mut f))) {
                Err(p) => rep.violation(format!("panic:write:{}", p.site()), format!("[{label}] write to /dev/full panics: {}", p.message), w("dev-full"), 0),
                Ok(Ok(())) => rep.violation("write:success-on-full-device", format!("[{label}] write to /dev/full reports success"), w("dev-full"), 0),
                Ok(Err(_)) => rep.count("os.dev_full.error_returned", 1),
            }
        }
        // (b) a pipe whose read end is closed at once (EPIPE), and one that is closed after k bytes
        for keep in [0usize, 1, 97, bytes.len() / 2] {
            let mut fds = [0i32; 2];
            if unsafe { libc::pipe(fds.as_mut_ptr()) } != 0 {
                continue;
            }
            use std::os::fd::FromRawFd;
            let mut rd = unsafe { std::fs::File::from_raw_fd(fds[0]) };
            let mut wr = unsafe { std::fs::File::from_raw_fd(fds[1]) };
            let reader = std::thread::spawn(move || {
                use std::io::Read;
                let mut got = vec![0u8; keep];
                let mut n = 0;
                while n < keep {
                    match rd.read(&mut got[n..]) {
                        Ok(0) | Err(_) => break,
                        Ok(k) => n += k,
                    }
                }
                got.truncate(n);
                drop(rd);
                got
            });
            rep.eval(1);
            let r = guard(|| pkg.write(&mut wr));
            drop(wr);
            let got = reader.join().unwrap_or_default();
            let mut canonical = Vec::new();
            let _ = pkg.write(&mut canonical);
            match r {
                Err(p) => rep.violation(format!("panic:write:{}", p.site()), format!("[{label}] write into a closed pipe panics: {}", p.message), w("closed-pipe"), 0),
                Ok(res) => {
                    if !canonical.starts_with(&got) {
                        rep.violation("write:os-pipe-not-a-prefix", format!("[{label}] the {} bytes read from the pipe are not a prefix of the canonical bytes", got.len()), w("closed-pipe"), 0);
                    }
                    // the pipe buffer (64 KiB) may swallow a small package entirely: both outcomes are fine then
                    rep.count(if res.is_ok() { "os.closed_pipe.write_ok(buffered)" } else { "os.closed_pipe.error_returned" }, 1);
                }
            }
        }
        // (c) a pipe fed in irregular bursts by another thread, and a real file
        {
            let mut fds = [0i32; 2];
            if unsafe { libc::pipe(fds.as_mut_ptr()) } == 0 {
                use std::os::fd::FromRawFd;
                let rd = unsafe { std::fs::File::from_raw_fd(fds[0]) };
                let mut wr = unsafe { std::fs::File::from_raw_fd(fds[1]) };
                let data = bytes.clone();
                let seed = ctx.seed ^ pi as u64;
                let feeder = std::thread::spawn(move || {
                    let mut r = Rng::for_case(seed, "C14-feed", 0);
                    let mut at = 0;
                    while at < data.len() {
                        let span = if r.chance(1, 4) { 4096 } else { 9 };
                        let n = (1 + r.usize(span)).min(data.len() - at);
                        if wr.write_all(&data[at..at + n]).is_err() {
                            break;
                        }
                        at += n;
                        if r.chance(1, 50) {
                            std::thread::sleep(std::time::Duration::from_micros(200));
                        }
                    }
                });
                rep.eval(1);
                let want = Package::parse(&mut &bytes[..]);
                let got = guard(|| Package::parse(&mut std::io::BufReader::with_capacity(1 + pi * 7, rd)));
                let _ = feeder.join();
                match got {
                    Err(p) => rep.violation(format!("panic:parse:{}", p.site()), format!("[{label}] parsing from a pipe panics: {}", p.message), w("fed-pipe"), 0),
                    Ok(g) => {
                        if !same_result(&g, &want) {
                            rep.violation("read:os-pipe-differs", format!("[{label}] parsing from a pipe fed in bursts gives {} instead of {}", show(&g), show(&want)), w("fed-pipe"), 0);
                        } else {
                            rep.count("os.fed_pipe.same_result", 1);
                        }
                    }
                }
            }
            // Package::open on a path that is not a regular file: the read end of a pipe reached
            // through /proc/self/fd, fed by another thread
            {
                let mut fds = [0i32; 2];
                if unsafe { libc::pipe(fds.as_mut_ptr()) } == 0 && std::path::Path::new("/proc/self/fd").exists() {
                    use std::os::fd::FromRawFd;
                    let rd = unsafe { std::fs::File::from_raw_fd(fds[0]) };
                    let mut wr = unsafe { std::fs::File::from_raw_fd(fds[1]) };
                    let data = bytes.clone();
                    let feeder = std::thread::spawn(move || {
                        let _ = wr.write_all(&data);
                    });
                    rep.eval(1);
                    let want = Package::parse(&mut &bytes[..]);
                    let path = format!("/proc/self/fd/{}", fds[0]);
                    let got = guard(|| Package::open(&path));
                    drop(rd);
                    let _ = feeder.join();
                    match got {
                        Err(p) => rep.violation(format!("panic:open:{}", p.site()), format!("[{label}] Package::open on a pipe panics: {}", p.message), w("open-pipe"), 0),
                        Ok(g) => {
                            if !same_result(&g, &want) {
                                rep.violation("read:open-on-pipe-differs", format!("[{label}] Package::open on a pipe gives {} instead of {}", show(&g), show(&want)), w("open-pipe"), 0);
                            } else {
                                rep.count("os.open_on_pipe.same_result", 1);
                            }
                        }
                    }
                }
            }
            let f = dir.join(format!("p{pi}.rpm"));
            if std::fs::write(&f, bytes).is_ok() {
                rep.eval(1);
                let want = Package::parse(&mut &bytes[..]);
                match guard(|| Package::open(&f)) {
                    Err(p) => rep.violation(format!("panic:open:{}", p.site()), format!("[{label}] Package::open panics: {}", p.message), w("file"), 0),
                    Ok(g) => {
                        if !same_result(&g, &want) {
                            rep.violation("read:file-differs", format!("[{label}] Package::open gives {} instead of {}", show(&g), show(&want)), w("file"), 0);
                        } else {
                            rep.count("os.file.same_result", 1);
                        }
                    }
                }
                // write_file then read back
                let out = dir.join(format!("o{pi}.rpm"));
                if let Ok(Ok(())) = guard(|| pkg.write_file(&out)) {
                    let mut canonical = Vec::new();
                    let _ = pkg.write(&mut canonical);
                    if std::fs::read(&out).ok().as_deref() != Some(&canonical[..]) {
                        rep.violation("write:file-differs", format!("[{label}] write_file leaves other bytes in the file than write() produces"), w("file"), 0);
                    } else {
                        rep.count("os.write_file.canonical", 1);
                    }
                }
            }
        }
    }
    // a main header far above any buffer size (34 MiB; rpm itself takes up to 256 MiB): the result of
    // parsing must not depend on whether the source hands it over in one piece
    if !ctx.is_dbg() {
        let mut cfg = BuildCfg { name: "hugehdr".into(), version: "1".into(), license: "MIT".into(), arch: "noarch".into(), summary: "huge header".into(), compression: Some(("none".into(), 0)), source_date: Some(1_600_000_000), ..Default::default() };
        cfg.description = Some("0123456789abcdef".repeat((34 << 20) / 16));
        if let Ok(Ok(bytes)) = guard(|| build(&cfg, &dir).and_then(|p| pkg_bytes(&p))) {
            let want = Package::parse(&mut &bytes[..]);
            let w = json!({"package": "built-34MiB-header", "os_level": "huge-header"});
            let f = dir.join("huge.rpm");
            let _ = std::fs::write(&f, &bytes);
            let ways: Vec<(&str, Box<dyn Fn() -> Result<Package, rpm::Error> + '_>)> = vec![
                ("BufReader(8 KiB) over a slice", Box::new(|| Package::parse(&mut io::BufReader::with_capacity(8192, &bytes[..])))),
                ("BufReader(1 MiB) over a slice", Box::new(|| Package::parse(&mut io::BufReader::with_capacity(1 << 20, &bytes[..])))),
                ("4096-byte reads", Box::new(|| Package::parse(&mut Source::new(&bytes, Chunk::Fixed(4096), None)))),
                ("Package::open on a file", Box::new(|| Package::open(&f))),
            ];
            for (how, way) in ways {
                rep.eval(1);
                match guard(|| way()) {
                    Err(p) => rep.violation(format!("panic:parse:{}", p.site()), format!("[34 MiB header] {how}: {}", p.message), w.clone(), 0),
                    Ok(g) => {
                        if !same_result(&g, &want) {
                            rep.violation("read:huge-header-differs", format!("[34 MiB header] {how} gives {} but the contiguous bytes give {}", show(&g), show(&want)), w.clone(), 0);
                        } else {
                            rep.count("os.huge_header.same_result", 1);
                        }
                    }
                }
            }
        }
    }
    let _ = std::fs::remove_dir_all(&dir);
}

fn replay(_ctx: &Ctx, w: &serde_json::Value, _rep: &Report) {
    println!("witness: package {} ({} hex chars), script {}, sink call log: {}", w["package"], w["package_hex"].as_str().map(|s| s.len()).unwrap_or(0), w["script"], w["sink_call_log(asked, answer)"]);
    println!("(scripts are enumerated deterministically: re-run `bin/check C14 quick`)");
}
