//! C08 — every digest the builder records is the true digest.

use super::CheckDef;
use std::os::unix::fs::OpenOptionsExt;
use crate::gen::build::*;
use crate::gen::corpus::*;
use crate::model::codec::*;
use crate::model::cpio;
use crate::util::par::{guard, par_for};
use crate::util::report::{Ctx, Meta, Report};
use crate::util::rng::{hash_bytes, Rng};
use crate::util::sha256_hex;
use serde_json::json;
use std::collections::BTreeMap;

pub fn def() -> CheckDef {
    CheckDef { id: "C08", run, meta, dbg: false, replay: Some(replay) }
}

fn meta(_ctx: &Ctx) -> Meta {
    Meta {
        level: "exploration",
        rule: "seeded builder configurations biased to what makes encoders accept partial buffers (1-8 MiB incompressible and compressible files, many files, every compressor and level), then sign / clear / re-sign: in the written bytes of every emitted package the signature header's SHA-256 (and SHA-1/MD5 when present) is recomputed over the serialised header located by the independent decoder, the payload digest over the compressed payload, the alternate payload digest over the archive obtained by calling the codec crates directly, and every file digest over the configured content. A compressor x level ladder (every level each encoder accepts) with empty files and a path given twice in different spellings is built first; file digests are also compared with the SHA-256 of the content found in the independently decoded archive. distinct_nontrivial = distinct emitted packages whose digests were all recomputed One staging path: a single source path given to with_file() for 2-5 destinations of one builder and rewritten (same length or growing, mtime pinned or moving, third content equal to the first; sizes 0/1/32/4096/70000) before every call - recorded digest against the archived content (counter staging_path.judged)".into(),
        assumptions: vec!["sha2/sha1/md-5 crates; flate2/zstd/liblzma/bzip2 decoders".into()],
        floor_distinct: 20,
    }
}

pub fn judge_bytes(bytes: &[u8], cfg: Option<&BuildCfg>) -> Result<Vec<(String, String)>, String> {
    let p = walk_package(bytes)?;
    let d = recompute_digests(bytes, &p);
    let mut v = Vec::new();
    // header digests in the signature header
    match p.sig.get(bytes, tag::SIG_SHA256) {
        Some(Ok(Val::Str(s))) => {
            if lossy(&s) != d.sha256_header {
                v.push(("header-sha256".to_string(), format!("signature header records SHA-256 {} but the serialised header hashes to {}", lossy(&s), d.sha256_header)));
            }
        }
        Some(other) => v.push(("header-sha256:bad-entry".to_string(), format!("RPMSIGTAG_SHA256 is not a string: {other:?}"))),
        None => v.push(("header-sha256:missing".to_string(), "the signature header records no header SHA-256".to_string())),
    }
    if let Some(Ok(Val::Str(s))) = p.sig.get(bytes, tag::SIG_SHA1) {
        if lossy(&s) != d.sha1_header {
            v.push(("header-sha1".to_string(), format!("recorded SHA-1 {} != {}", lossy(&s), d.sha1_header)));
        }
    }
    if let Some(Ok(Val::Bin(b))) = p.sig.get(bytes, tag::SIG_MD5) {
        if b != d.md5_header_payload {
            v.push(("header-payload-md5".to_string(), "recorded MD5 differs from MD5(header || payload)".to_string()));
        }
    }
    // payload digests
    let compressor = p.hdr.get_str(bytes, tag::PAYLOADCOMPRESSOR).map(|c| lossy(&c));
    let cname = compressor.clone().unwrap_or("none".into());
    match p.hdr.get_strs(bytes, tag::PAYLOADDIGEST) {
        Some(s) if s.len() == 1 => {
            if lossy(&s[0]) != d.sha256_payload {
                v.push(("payload-digest".to_string(), format!("PAYLOADDIGEST {} but the compressed payload hashes to {}", lossy(&s[0]), d.sha256_payload)));
            }
        }
        other => v.push(("payload-digest:missing".to_string(), format!("PAYLOADDIGEST entry: {other:?}"))),
    }
    let archive = cpio::decompress(compressor.as_deref(), &bytes[p.payload_start..]).map_err(|e| format!("independent decompression failed: {e}"))?;
    match p.hdr.get_strs(bytes, tag::PAYLOADDIGESTALT) {
        Some(s) if s.len() == 1 => {
            let want = sha256_hex(&archive);
            if lossy(&s[0]) != want {
                v.push((format!("payload-digest-alt:{cname}"), format!("PAYLOADDIGESTALT {} but the uncompressed archive ({} bytes, {cname}) hashes to {}", lossy(&s[0]), archive.len(), want)));
            }
        }
        other => v.push(("payload-digest-alt:missing".to_string(), format!("PAYLOADDIGESTALT entry: {other:?}"))),
    }
    // file digests against what the archive really holds (independent of the configuration)
    {
        let fl = decode_files(bytes, &p.hdr)?;
        let sizes = fl.sizes.clone();
        let (entries, _) = cpio::decode(&archive, &|i| sizes.get(i as usize).copied()).map_err(|e| format!("independent cpio decoding failed: {e}"))?;
        for e in &entries {
            let idx = if e.index != u32::MAX {
                Some(e.index as usize)
            } else {
                let name = collapse_slashes(e.name.strip_prefix(b".").unwrap_or(&e.name));
                fl.paths.iter().position(|pp| collapse_slashes(pp) == name)
            };
            let Some(i) = idx else { continue };
            let mode = fl.modes.get(i).copied().unwrap_or(0);
            let got = fl.digests.get(i).map(|d| lossy(d)).unwrap_or_default();
            // directories and links may go without a digest; a digest that IS recorded must be the
            // digest of what the archive holds for that entry, whatever its type
            let ty = mode & 0o170000;
            if (ty == 0o040000 || ty == 0o120000) && got.is_empty() {
                continue;
            }
            let want = sha256_hex(&e.data);
            if got != want {
                v.push(("file-digest:archived-content".to_string(), format!("{}: FILEDIGESTS has {got:?}, the archived content ({} bytes) hashes to {want}", lossy(&fl.paths[i]), e.data.len())));
            }
        }
    }
    // file digests against the configuration (not when the sources were rewritten under the builder)
    if let Some(cfg) = cfg.filter(|c| c.disturb_sources == 0) {
        let fl = decode_files(bytes, &p.hdr)?;
        for f in &cfg.files {
            // a path given more than once: the builder keeps one of the contents (judged above)
            if cfg.files.iter().filter(|g| installed_path(&g.dest) == installed_path(&f.dest)).count() > 1 {
                continue;
            }
            let want_path = installed_path(&f.dest).into_bytes();
            let Some(i) = fl.paths.iter().position(|pp| collapse_slashes(pp) == want_path) else {
                v.push(("file-digest:file-missing".to_string(), format!("{} not in the header", installed_path(&f.dest))));
                continue;
            };
            let want = sha256_hex(&file_content(f));
            let got = fl.digests.get(i).map(|d| lossy(d)).unwrap_or_default();
            let regular = expected_mode(f) & 0o170000 == 0o100000;
            if got != want && (regular || !got.is_empty()) {
                v.push(("file-digest".to_string(), format!("{}: FILEDIGESTS has {got:?}, content hashes to {want}", installed_path(&f.dest))));
            }
        }
        if fl.digest_algo != Some(8) && !cfg.files.is_empty() {
            v.push(("file-digest-algo".to_string(), format!("FILEDIGESTALGO is {:?}, digests are SHA-256", fl.digest_algo)));
        }
    }
    Ok(v)
}

fn big_cfg(rng: &mut Rng, i: u64) -> BuildCfg {
    let mut cfg = gen_cfg(rng, &GenOpts { max_files: 3, regular_only: true, ..Default::default() });
    // one or two large files, sizes off the buffer boundaries
    let n = 1 + rng.usize(2);
    for k in 0..n {
        let size = match rng.below(4) {
            0 => (1 << 20) + rng.usize(4096),
            1 => (3 << 20) + rng.usize(1 << 20),
            2 => (32 * 1024) * (1 + rng.usize(64)) + rng.usize(3),
            _ => (1 << 20) + rng.usize(7 << 20),
        };
        cfg.files.push(FileCfg {
            dest: format!("/opt/big/{i}-{k}.bin"),
            content_kind: if rng.chance(2, 3) { "noise".into() } else { "text".into() },
            size,
            content_seed: rng.next(),
            mode: Some(0o100644),
            source_perm: 0o644,
            user: None,
            group: None,
            flags: vec![],
            caps: None,
            symlink: None,
            mtime: 1_500_000_000,
            verify: None,
        });
    }
    cfg
}

/// every compression type with every level it accepts (the random configurations reach a given
/// (type, level) pair only now and then), each over an empty, a one-byte and a page-sized file
pub fn ladder() -> Vec<Option<(String, i64)>> {
    let mut v: Vec<Option<(String, i64)>> = vec![None, Some(("none".into(), 0))];
    for l in 0..=9 {
        v.push(Some(("gzip".into(), l)));
        v.push(Some(("xz".into(), l)));
    }
    for l in 1..=9 {
        v.push(Some(("bzip2".into(), l)));
    }
    for l in -7..=22 {
        v.push(Some(("zstd".into(), l)));
    }
    v
}

fn ladder_cfg(rng: &mut Rng, k: usize) -> BuildCfg {
    let mut cfg = gen_cfg(rng, &GenOpts { max_files: 0, ..Default::default() });
    cfg.files.clear();
    for (j, size) in [0usize, 1, 4096, 0].into_iter().enumerate() {
        cfg.files.push(FileCfg {
            dest: format!("/opt/ladder/{k}-{j}.dat"),
            content_kind: "text".into(),
            size,
            content_seed: rng.next(),
            mode: Some(0o100644),
            source_perm: 0o644,
            user: None,
            group: None,
            flags: vec![],
            caps: None,
            symlink: None,
            mtime: 1_500_000_000,
            verify: None,
        });
    }
    // a symbolic link and a directory entry (whatever digest they are given must match the archive)
    {
        let mut l = cfg.files[1].clone();
        l.dest = format!("/opt/ladder/{k}-link");
        l.mode = Some(0o120777);
        l.symlink = Some(format!("target-of-{k}"));
        l.size = 7;
        cfg.files.push(l);
        let mut d = cfg.files[1].clone();
        d.dest = format!("/opt/ladder/{k}-dir");
        d.mode = Some(0o040755);
        d.size = 0;
        cfg.files.push(d);
    }
    // a file whose name extends a sibling directory's name with a character that sorts below '/'
    // (byte order of the path strings and component order of the paths disagree for these)
    for (j, (a, b)) in [("sib.conf", "sib/inner.conf"), ("sib-1", "sib/zz"), ("sib x", "sib/a"), ("sib+", "sib/+")].into_iter().enumerate() {
        for (name, size) in [(a, 21 + j), (b, 37 + j)] {
            let mut f = cfg.files[1].clone();
            f.dest = format!("/opt/ladder/{k}/{name}");
            f.size = size;
            f.content_seed = rng.next();
            cfg.files.push(f);
        }
    }
    // a mode given as permission bits only (no file-type bits): still a file with content and a digest
    {
        let mut f = cfg.files[1].clone();
        f.dest = format!("/opt/ladder/{k}-permission-only-mode");
        f.mode = Some([0o644, 0o755, 0o600][k % 3]);
        f.size = 11;
        cfg.files.push(f);
    }
    // the same path given twice with different content, in three spellings
    if k % 3 == 0 {
        let spell = ["/opt/ladder/twice.dat", "./opt/ladder/twice.dat", "/opt//ladder/twice.dat"];
        for (j, size) in [(0usize, 40usize), (1, 41)] {
            let mut f = cfg.files[1].clone();
            f.dest = spell[(k / 3 + j * (1 + k % 2)) % 3].into();
            f.size = size;
            f.content_seed = rng.next();
            cfg.files.push(f);
        }
    }
    cfg.compression = ladder()[k].clone();
    // every fourth ladder package: the source files change between with_file() and build()
    cfg.disturb_sources = if k % 4 == 1 { 1 + (k / 4 % 3) as u8 } else { 0 };
    cfg
}

/// foreign packages after an operation of this library (sign / clear): the signature header it
/// wrote must carry the true header SHA-256; every other digest that is recorded must be right
fn judge_foreign(bytes: &[u8], operated: bool) -> Result<Vec<(String, String)>, String> {
    let p = walk_package(bytes)?;
    let d = recompute_digests(bytes, &p);
    let mut v = Vec::new();
    match p.sig.get(bytes, tag::SIG_SHA256) {
        Some(Ok(Val::Str(s))) => {
            if lossy(&s) != d.sha256_header {
                v.push(("header-sha256:foreign".to_string(), format!("signature header records SHA-256 {} but the serialised header hashes to {}", lossy(&s), d.sha256_header)));
            }
        }
        Some(other) => v.push(("header-sha256:bad-entry:foreign".to_string(), format!("RPMSIGTAG_SHA256 is not a string: {other:?}"))),
        None if operated => v.push(("header-sha256:missing:foreign".to_string(), "after sign / clear the signature header records no header SHA-256".to_string())),
        None => {}
    }
    if let Some(Ok(Val::Str(s))) = p.sig.get(bytes, tag::SIG_SHA1) {
        if lossy(&s) != d.sha1_header {
            v.push(("header-sha1:foreign".to_string(), format!("recorded SHA-1 {} != {}", lossy(&s), d.sha1_header)));
        }
    }
    if let Some(Ok(Val::Bin(b))) = p.sig.get(bytes, tag::SIG_MD5) {
        if b != d.md5_header_payload {
            v.push(("header-payload-md5:foreign".to_string(), "recorded MD5 differs from MD5(header || payload)".to_string()));
        }
    }
    if let (Some(s), Some(a)) = (p.hdr.get_strs(bytes, tag::PAYLOADDIGEST), p.hdr.get_u32s(bytes, tag::PAYLOADDIGESTALGO)) {
        if s.len() == 1 && a.first() == Some(&8) && lossy(&s[0]) != d.sha256_payload {
            v.push(("payload-digest:foreign".to_string(), format!("PAYLOADDIGEST {} but the payload hashes to {}", lossy(&s[0]), d.sha256_payload)));
        }
    }
    Ok(v)
}

/// One builder, `2 + k % 4` destinations, all read from the one path `staging`, which is rewritten (and its
/// modification time set) before every with_file() call. Returns the bytes of the written package.
fn staged_build(staging: &std::path::Path, k: u64, mtime0: i64) -> Result<Vec<u8>, String> {
    let nfiles = 2 + (k % 4) as usize;
    let same_len = k % 2 == 0;
    let pin_mtime = k % 4 < 3;
    let len0 = [0usize, 1, 32, 4096, 70_000][(k / 4) as usize % 5];
    let mut b = rpm::PackageBuilder::new("staged", "1", "MIT", "noarch", "one staging path").compression([rpm::CompressionType::None, rpm::CompressionType::Gzip, rpm::CompressionType::Zstd][k as usize % 3]);
    for j in 0..nfiles {
        let len = if same_len { len0 } else { len0 + j * 7 };
        // the third file repeats the content of the first
        let fill = if j == 2 { 0 } else { j as u8 + 1 };
        let content: Vec<u8> = (0..len).map(|x| (x as u8).wrapping_mul(31).wrapping_add(fill.wrapping_mul(97))).collect();
        std::fs::write(staging, &content).map_err(|e| format!("harness: {e}"))?;
        let t = if pin_mtime { mtime0 } else { mtime0 + j as i64 };
        let ts = [libc::timespec { tv_sec: t, tv_nsec: 0 }, libc::timespec { tv_sec: t, tv_nsec: 0 }];
        let c = std::ffi::CString::new(staging.to_string_lossy().as_bytes()).unwrap();
        if unsafe { libc::utimensat(libc::AT_FDCWD, c.as_ptr(), ts.as_ptr(), 0) } != 0 {
            return Err("harness: utimensat failed".into());
        }
        b = b.with_file(staging, rpm::FileOptions::new(format!("/opt/staged/f{j}.bin")).mode(rpm::FileMode::regular(0o644))).map_err(|e| format!("with_file: {e}"))?;
    }
    let p = b.build().map_err(|e| format!("build: {e}"))?;
    pkg_bytes(&p).map_err(|e| format!("write: {e}"))
}

fn run(ctx: &Ctx, rep: &Report) {
    let keys = match load_keys(&ctx.repo_dir) {
        Ok(k) => k,
        Err(e) => {
            rep.inconclusive(format!("cannot load test keys: {e}"));
            return;
        }
    };
    // the repository's packages after sign / clear by this library
    {
        let mut local = BTreeMap::new();
        for it in asset_items(&ctx.repo_dir, &keys).into_iter().flatten() {
            rep.eval(1);
            let operated = it.label.contains("+sign") || it.label.contains("+clear");
            match guard(|| judge_foreign(&it.bytes, operated)) {
                Ok(Ok(ms)) => {
                    rep.nontrivial(hash_bytes(&it.bytes[..it.bytes.len().min(4096)]) ^ it.bytes.len() as u64);
                    *local.entry(format!("judged.asset{}", if operated { "+operation" } else { "" })).or_insert(0u64) += 1;
                    for (k, what) in ms {
                        rep.violation(k, format!("{}: {what}", it.label), json!({"label": it.label}), 0);
                    }
                }
                Ok(Err(e)) => rep.inconclusive(format!("asset item {} does not walk: {e}", it.label)),
                Err(p) => rep.inconclusive(format!("oracle panicked: {}", p.message)),
            }
        }
        rep.counts(&local);
    }
    // sources whose size as reported by stat() says nothing about their content: files of the proc
    // file system (size 0) and a FIFO fed by another thread; whatever gets archived must match its digest
    {
        let dir = ctx.work_dir("odd-sources");
        let fifo = dir.join("fifo");
        let cpath = std::ffi::CString::new(fifo.to_string_lossy().as_bytes()).unwrap();
        let have_fifo = unsafe { libc::mkfifo(cpath.as_ptr(), 0o644) } == 0;
        let mut sources: Vec<std::path::PathBuf> = ["/proc/version", "/proc/filesystems", "/proc/sys/kernel/ostype"].iter().map(std::path::PathBuf::from).filter(|p| p.exists()).collect();
        if have_fifo {
            sources.push(fifo.clone());
        }
        for (k, src) in sources.iter().enumerate() {
            let feeder = if *src == fifo {
                let f = fifo.clone();
                Some(std::thread::spawn(move || {
                    // one open()/write per reader: the builder may open the source more than once
                    for _ in 0..2 {
                        if let Ok(mut w) = std::fs::OpenOptions::new().write(true).open(&f) {
                            use std::io::Write;
                            let _ = w.write_all(&vec![b'p'; 70_000]);
                        }
                    }
                }))
            } else {
                None
            };
            rep.eval(1);
            let r = guard(|| {
                rpm::PackageBuilder::new("odd", "1", "MIT", "noarch", "odd sources")
                    .compression([rpm::CompressionType::None, rpm::CompressionType::Gzip, rpm::CompressionType::Zstd][k % 3])
                    .with_file(src, rpm::FileOptions::new(format!("/opt/odd/f{k}")).mode(rpm::FileMode::regular(0o644)))
                    .and_then(|b| b.build())
                    .and_then(|p| pkg_bytes(&p))
            });
            if *src == fifo {
                // unblock a feeder that is still waiting for a second reader
                // (never joined: a feeder whose FIFO nobody opens again simply stays blocked until exit)
                for _ in 0..3 {
                    let _ = std::fs::OpenOptions::new().read(true).custom_flags(libc::O_NONBLOCK).open(&fifo);
                    std::thread::sleep(std::time::Duration::from_millis(10));
                }
                drop(feeder);
            }
            match r {
                Ok(Ok(bytes)) => match guard(|| judge_bytes(&bytes, None)) {
                    Ok(Ok(ms)) => {
                        rep.nontrivial(hash_bytes(&bytes[..bytes.len().min(4096)]) ^ 0x0dd);
                        rep.count("odd_sources.judged", 1);
                        for (key, what) in ms {
                            rep.violation(key, format!("source {}: {what}", src.display()), json!({"label": "odd-source", "source": src.display().to_string()}), 0);
                        }
                    }
                    Ok(Err(e)) => rep.violation(format!("emitted-package-unreadable:{}", crate::util::par::normalize_msg(&e)), format!("source {}: {e}", src.display()), json!({"label": "odd-source"}), 0),
                    Err(p) => rep.inconclusive(format!("oracle panicked: {}", p.message)),
                },
                Ok(Err(_)) => rep.count("odd_sources.refused", 1),
                Err(p) => rep.violation(format!("panic:{}", p.site()), format!("building from {} panics: {}", src.display(), p.message), json!({"label": "odd-source"}), 0),
            }
        }
        let _ = std::fs::remove_dir_all(&dir);
    }
    // ONE staging path given to with_file() for several destinations of one builder, rewritten between
    // the calls: same length or not, modification time pinned to one instant or moving, content coming
    // back to an earlier one. Whatever the archive holds for each destination must match its recorded
    // digest (seeded change C08-s: digests remembered per (source path, length, mtime))
    {
        let dir = ctx.work_dir("staging");
        let staging = dir.join("staging.bin");
        let mut rng = Rng::for_case(ctx.seed, "C08-staging", 0);
        let rounds = ctx.tier.pick(24, 400);
        for k in 0..rounds {
            let nfiles = 2 + (k % 4) as usize;
            let same_len = k % 2 == 0;
            let pin_mtime = k % 4 < 3;
            let mtime0 = 1_500_000_000 + rng.below(100_000_000) as i64;
            rep.eval(1);
            let r = guard(|| staged_build(&staging, k, mtime0));
            let w = json!({"label": "staging-path", "round": k, "mtime0": mtime0});
            match r {
                Ok(Ok(bytes)) => match guard(|| judge_bytes(&bytes, None)) {
                    Ok(Ok(ms)) => {
                        rep.nontrivial(hash_bytes(&bytes[..bytes.len().min(4096)]) ^ 0x57a9 ^ k);
                        rep.count("staging_path.judged", 1);
                        for (key, what) in ms {
                            rep.violation(format!("{key}:staging-path"), format!("one source path rewritten between with_file() calls ({nfiles} files, same length: {same_len}, same mtime: {pin_mtime}): {what}"), w.clone(), 0);
                        }
                    }
                    Ok(Err(e)) => rep.violation(format!("emitted-package-unreadable:{}", crate::util::par::normalize_msg(&e)), format!("staging path: {e}"), w.clone(), 0),
                    Err(p) => rep.inconclusive(format!("oracle panicked: {}", p.message)),
                },
                Ok(Err(e)) if e.starts_with("harness:") => rep.inconclusive(format!("staging-path schedule: {e}")),
                Ok(Err(e)) => rep.violation(format!("emit-error:staging-path:{}", crate::util::par::normalize_msg(&e)), format!("a valid sequence of with_file() calls fails: {e}"), w.clone(), 0),
                Err(p) => rep.violation(format!("panic:{}", p.site()), format!("building from a rewritten staging path panics: {}", p.message), w.clone(), 0),
            }
        }
        let _ = std::fs::remove_dir_all(&dir);
    }
    let nl = ladder().len() as u64;
    let n: u64 = nl + ctx.tier.pick(64, 4000);
    let base = ctx.work_dir("build");
    par_for(ctx.threads, n, 1, |i| {
        let mut rng = Rng::for_case(ctx.seed, "C08", i);
        let big = i >= nl && i % 4 != 3;
        let mut cfg = if i < nl {
            ladder_cfg(&mut rng, i as usize)
        } else if big {
            big_cfg(&mut rng, i)
        } else {
            gen_cfg(&mut rng, &GenOpts { max_files: 8, ..Default::default() })
        };
        if big {
            // avoid the very slow level/size combinations in the quick tier
            if let (Some((t, l)), false) = (&mut cfg.compression, ctx.tier.pick(false, true)) {
                if t == "xz" && *l > 6 {
                    *l = 6;
                }
                if t == "zstd" && *l > 15 {
                    *l = 15;
                }
            }
        }
        cfg.large_files = i % 11 == 10;
        // every other configuration is built right after a with_file() call that FAILED on this thread
        // (a destination without a leading '/'): nothing of a refused file may leak into the next build
        if i % 2 == 0 {
            let refused = guard(|| rpm::PackageBuilder::new("refused", "1", "MIT", "noarch", "x").with_file(ctx.asset("Cargo.toml"), rpm::FileOptions::new("no/leading/slash")).is_err());
            if !matches!(refused, Ok(true)) {
                rep.note("the poisoning with_file() call did not fail as planned");
            }
        }
        let dir = base.join(format!("c{i}"));
        let mut local = BTreeMap::new();
        let w = |label: &str| json!({"label": label, "cfg": cfg});
        match built_items(&cfg, &dir, &keys, &mut rng, i % 2 == 0) {
            Ok(items) => {
                for it in &items {
                    rep.eval(1);
                    match guard(|| judge_bytes(&it.bytes, it.cfg.as_ref())) {
                        Ok(Ok(ms)) => {
                            rep.nontrivial(hash_bytes(&it.bytes[..it.bytes.len().min(4096)]) ^ it.bytes.len() as u64);
                            *local.entry(format!("judged.{}", it.label.split('(').next().unwrap_or(""))).or_insert(0) += 1;
                            for (k, what) in ms {
                                rep.violation(k, format!("{}: {what}", it.label), w(&it.label), it.bytes.len() as u64);
                            }
                        }
                        Ok(Err(e)) => rep.violation(format!("emitted-package-unreadable:{}", crate::util::par::normalize_msg(&e)), format!("{}: {e}", it.label), w(&it.label), it.bytes.len() as u64),
                        Err(p) => rep.inconclusive(format!("oracle panicked: {}", p.message)),
                    }
                }
                if i < nl {
                    *local.entry("ladder_configs(type x level)".into()).or_insert(0) += 1;
                }
                *local.entry(format!("compressor.{}", cfg.compression.as_ref().map(|c| c.0.as_str()).unwrap_or("default"))).or_insert(0) += 1;
                let total: usize = cfg.files.iter().map(|f| f.size).sum();
                if total >= 3 << 20 {
                    *local.entry("configs_with_3MiB_or_more".into()).or_insert(0) += 1;
                }
                if cfg.files.iter().any(|f| f.size >= 1 << 20 && f.content_kind == "noise") {
                    *local.entry("configs_with_incompressible_MiB_file".into()).or_insert(0) += 1;
                }
                if i < 2 {
                    rep.sample(json!({"cfg": cfg, "emitted": items.iter().map(|it| json!({"label": it.label, "bytes": it.bytes.len()})).collect::<Vec<_>>()}));
                }
            }
            Err(CorpusErr::Panic(site, msg)) => rep.violation(format!("panic:{site}"), format!("emitting operation panics: {msg}"), w("build"), 0),
            // a builder that reads its sources late may refuse files that changed or vanished
            Err(CorpusErr::Err(_, _)) if cfg.disturb_sources != 0 => *local.entry("disturbed_sources.build_error(allowed)".into()).or_insert(0) += 1,
            Err(CorpusErr::Err(op, msg)) => rep.violation(format!("emit-error:{op}:{}", crate::util::par::normalize_msg(&msg)), format!("{op} fails on a valid configuration: {msg}"), w("build"), 0),
        }
        rep.counts(&local);
        let _ = std::fs::remove_dir_all(&dir);
    });
    let _ = std::fs::remove_dir_all(&base);
    let hooks = rpm::verif_hooks::snapshot();
    let writes = hooks.get("sha256writer.write").copied().unwrap_or(0);
    rep.count("hook.sha256writer.write_calls", writes);
    if writes == 0 {
        rep.inconclusive("the digesting writer was never exercised (hook counter is 0)");
    }
    if rep.get_count("configs_with_incompressible_MiB_file") < 8 {
        rep.inconclusive("fewer than 8 configurations with a MiB-sized incompressible file");
    }
}

fn replay(ctx: &Ctx, w: &serde_json::Value, rep: &Report) {
    if w["label"].as_str() == Some("staging-path") {
        let dir = ctx.work_dir("replay-staging");
        let r = staged_build(&dir.join("staging.bin"), w["round"].as_u64().unwrap_or(0), w["mtime0"].as_i64().unwrap_or(1_600_000_000));
        match r.and_then(|bytes| judge_bytes(&bytes, None)) {
            Ok(ms) => {
                println!("monitor: staging path: {} mismatching digest(s)", ms.len());
                for (k, what) in ms {
                    println!("  {k}: {what}");
                    rep.violation(format!("{k}:staging-path"), what, w.clone(), 0);
                }
            }
            Err(e) => println!("monitor: staging path: {e}"),
        }
        let _ = std::fs::remove_dir_all(&dir);
        return;
    }
    let Ok(cfg) = serde_json::from_value::<BuildCfg>(w["cfg"].clone()) else { return };
    let keys = load_keys(&ctx.repo_dir).unwrap_or_default();
    let dir = ctx.work_dir("replay");
    let mut rng = Rng::new(1);
    if let Ok(items) = built_items(&cfg, &dir, &keys, &mut rng, true) {
        for it in &items {
            match judge_bytes(&it.bytes, it.cfg.as_ref()) {
                Ok(ms) => {
                    println!("monitor: {}: {} mismatching digest(s)", it.label, ms.len());
                    for (k, what) in ms {
                        println!("  {k}: {what}");
                        rep.violation(k, what, w.clone(), 0);
                    }
                }
                Err(e) => println!("monitor: {}: {e}", it.label),
            }
        }
    }
    let _ = std::fs::remove_dir_all(&dir);
}
