//! C04 — untrusted bytes never crash the reader (process-level monitors in worker children).

use super::CheckDef;
use crate::gen::build::*;
use crate::gen::hdr::*;
use crate::model::codec::*;
use crate::model::cpio as mcpio;
use crate::monitor::verifier::RecVerifier;
use crate::monitor::worker::*;
use crate::util::par::guard;
use crate::util::report::{Ctx, Meta, Report};
use crate::util::rng::{hash_bytes, Rng};
use rpm::{Package, PackageMetadata};
use serde_json::{json, Value};
use std::collections::BTreeMap;
use std::sync::OnceLock;
use std::time::Duration;

pub fn def() -> CheckDef {
    // both profiles are driven from the release orchestrator through worker binaries
    CheckDef { id: "C04", run, meta, dbg: false, replay: Some(replay) }
}

fn meta(_ctx: &Ctx) -> Meta {
    Meta {
        level: "exploration",
        rule: "hostile inputs: (1) boundary-value products over the intro fields il/dl of both headers and over single index entries (type 0..10, offsets -1/0/dl-1/dl/dl+1/i32 extremes, counts 0/1/dl/dl+1/2^31/u32::MAX, unterminated strings) on the tags the accessors read, (2) every truncation and single-byte mutation (00, FF, +1, -1, each bit) of the metadata of small valid packages (built, signed, asset), (3) seeded structure-aware mutation storms (several fields at once, many entries aliasing one string region), (4) hostile uncompressed cpio payloads (name lengths 0/1/4096/4097/2^32-1, unterminated or non-UTF-8 names, non-hex fields, sizes beyond the data, missing trailer, stripped entries with bad indexes, wrong magic), (5) garbage/empty inputs. Each input is parsed as Package and PackageMetadata and every read-side operation (all metadata getters, file entries/paths, dependencies, changelog, scriptlets, offsets, Display, write, verify_digests, verify_signature with a recording and a real verifier, signature_key_ids, files() on uncompressed payloads) is applied inside worker processes (release and overflow-checking verifdbg builds) that turn panics, aborts, allocation-budget trips (4 MiB + 256 x input length) and watchdog timeouts into events. The repository's packages are also read with builds of the library that lack the matching decompressor (three other cargo feature sets): no panic. Family cross-tags: well-formed headers whose related tags disagree (locale table vs i18n entries with \"C\" at every position, per-file arrays, dependency / changelog / scriptlet groups of unequal lengths or mixed types). distinct_nontrivial = distinct inputs executed (content hash)".into(),
        assumptions: vec![
            "legitimate peak heap is below 4 MiB + 256 x input length (measured: <= ~41x on dense string arrays)".into(),
            "a watchdog firing counts only when the case still does not finish alone with a 10x budget".into(),
        ],
        floor_distinct: 5000,
    }
}

// ---------------------------------------------------------------------------------------------
// child side: the judge

fn err_kind(e: &rpm::Error) -> String {
    let s = format!("{e:?}");
    s.split(|c: char| !c.is_alphanumeric()).next().unwrap_or("").to_string()
}

static REAL_VERIFIER: OnceLock<Option<rpm::signature::pgp::Verifier>> = OnceLock::new();

fn real_verifier() -> Option<&'static rpm::signature::pgp::Verifier> {
    REAL_VERIFIER
        .get_or_init(|| {
            let repo = std::env::var("VERIF_REPO").unwrap_or_else(|_| "/repo".into());
            std::fs::read(format!("{repo}/tests/assets/signing_keys/public_ed25519.asc")).ok().and_then(|b| rpm::signature::pgp::Verifier::load_from_asc_bytes(&b).ok())
        })
        .as_ref()
}

macro_rules! op {
    ($panics:ident, $n:ident, $name:expr, $e:expr) => {{
        $n += 1;
        if let Err(p) = guard(|| {
            let _ = $e;
        }) {
            $panics.push(json!({"op": $name, "message": p.message, "file": p.file, "line": p.line, "frame": p.rpm_frame}));
        }
    }};
}

fn metadata_ops(m: &PackageMetadata, panics: &mut Vec<Value>) -> u64 {
    let mut n = 0u64;
    op!(panics, n, "is_source_package", m.is_source_package());
    op!(panics, n, "get_name", m.get_name());
    op!(panics, n, "get_epoch", m.get_epoch());
    op!(panics, n, "get_version", m.get_version());
    op!(panics, n, "get_release", m.get_release());
    op!(panics, n, "get_arch", m.get_arch());
    op!(panics, n, "get_vendor", m.get_vendor());
    op!(panics, n, "get_url", m.get_url());
    op!(panics, n, "get_vcs", m.get_vcs());
    op!(panics, n, "get_license", m.get_license());
    op!(panics, n, "get_summary", m.get_summary());
    op!(panics, n, "get_description", m.get_description());
    op!(panics, n, "get_group", m.get_group());
    op!(panics, n, "get_packager", m.get_packager());
    op!(panics, n, "get_build_time", m.get_build_time());
    op!(panics, n, "get_build_host", m.get_build_host());
    op!(panics, n, "get_cookie", m.get_cookie());
    op!(panics, n, "get_source_rpm", m.get_source_rpm());
    op!(panics, n, "get_pre_install_script", m.get_pre_install_script());
    op!(panics, n, "get_post_install_script", m.get_post_install_script());
    op!(panics, n, "get_pre_uninstall_script", m.get_pre_uninstall_script());
    op!(panics, n, "get_post_uninstall_script", m.get_post_uninstall_script());
    op!(panics, n, "get_pre_trans_script", m.get_pre_trans_script());
    op!(panics, n, "get_post_trans_script", m.get_post_trans_script());
    op!(panics, n, "get_pre_untrans_script", m.get_pre_untrans_script());
    op!(panics, n, "get_post_untrans_script", m.get_post_untrans_script());
    op!(panics, n, "get_provides", m.get_provides());
    op!(panics, n, "get_requires", m.get_requires());
    op!(panics, n, "get_conflicts", m.get_conflicts());
    op!(panics, n, "get_obsoletes", m.get_obsoletes());
    op!(panics, n, "get_recommends", m.get_recommends());
    op!(panics, n, "get_suggests", m.get_suggests());
    op!(panics, n, "get_enhances", m.get_enhances());
    op!(panics, n, "get_supplements", m.get_supplements());
    op!(panics, n, "get_package_segment_offsets", m.get_package_segment_offsets());
    op!(panics, n, "get_installed_size", m.get_installed_size());
    op!(panics, n, "get_payload_compressor", m.get_payload_compressor());
    op!(panics, n, "get_file_paths", m.get_file_paths());
    op!(panics, n, "get_file_digest_algorithm", m.get_file_digest_algorithm());
    op!(panics, n, "get_file_entries", m.get_file_entries());
    op!(panics, n, "get_changelog_entries", m.get_changelog_entries());
    op!(panics, n, "display_header", format!("{}", m.header));
    op!(panics, n, "display_signature_header", format!("{}", m.signature));
    op!(panics, n, "debug_metadata", format!("{:?}", m.lead));
    op!(panics, n, "debug_header", format!("{:?}", m.header).len());
    op!(panics, n, "debug_signature_header", format!("{:?}", m.signature).len());
    op!(panics, n, "metadata_write", {
        let mut v = Vec::new();
        m.write(&mut v)
    });
    n
}

pub fn judge_c04(bytes: &[u8]) -> Value {
    let mut panics: Vec<Value> = Vec::new();
    let mut ops = 0u64;
    let mut outcome = String::new();
    // PackageMetadata::parse
    match guard(|| PackageMetadata::parse(&mut &bytes[..])) {
        Err(p) => panics.push(json!({"op": "PackageMetadata::parse", "message": p.message, "file": p.file, "line": p.line, "frame": p.rpm_frame})),
        Ok(Err(e)) => outcome = format!("err:{}", err_kind(&e)),
        Ok(Ok(m)) => {
            outcome = "ok".into();
            ops += metadata_ops(&m, &mut panics);
        }
    }
    ops += 1;
    match guard(|| Package::parse(&mut &bytes[..])) {
        Err(p) => panics.push(json!({"op": "Package::parse", "message": p.message, "file": p.file, "line": p.line, "frame": p.rpm_frame})),
        Ok(Err(_)) => {}
        Ok(Ok(pkg)) => {
            let mut n = 0u64;
            op!(panics, n, "write", {
                let mut v = Vec::new();
                pkg.write(&mut v)
            });
            op!(panics, n, "verify_digests", pkg.verify_digests());
            op!(panics, n, "verify_signature(recording)", {
                let rv = RecVerifier::new(vec![], true);
                pkg.verify_signature(&rv)
            });
            if let Some(v) = real_verifier() {
                op!(panics, n, "verify_signature(pgp)", pkg.verify_signature(v));
            }
            op!(panics, n, "signature_key_ids", pkg.signature_key_ids());
            let uncompressed = matches!(guard(|| pkg.metadata.get_payload_compressor()), Ok(Ok(rpm::CompressionType::None)));
            if uncompressed {
                // a consumer that stops at the first error ...
                op!(panics, n, "files", {
                    if let Ok(it) = pkg.files() {
                        let mut k = 0usize;
                        for f in it {
                            k += 1;
                            if f.is_err() || k > 100_000 {
                                break;
                            }
                        }
                    }
                });
                // ... and one that keeps pulling (`.count()`, `filter_map(Result::ok)`): the iterator
                // must come to an end; an archive of n bytes cannot hold more than n / 14 entries
                let limit = bytes.len() / 8 + 64;
                let pulled = guard(|| {
                    let mut k = 0usize;
                    if let Ok(it) = pkg.files() {
                        for _ in it {
                            k += 1;
                            if k > limit {
                                break;
                            }
                        }
                    }
                    k
                });
                n += 1;
                match pulled {
                    Ok(k) if k > limit => panics.push(json!({"op": "files(keep-pulling)", "message": "the file iterator keeps yielding items after the archive is exhausted", "file": "src/rpm/package.rs", "line": 0, "frame": "FileIterator::next:does-not-terminate"})),
                    Ok(_) => {}
                    Err(p) => panics.push(json!({"op": "files(keep-pulling)", "message": p.message, "file": p.file, "line": p.line, "frame": p.rpm_frame})),
                }
            }
            ops += n;
        }
    }
    ops += 1;
    json!({"outcome": outcome, "ops": ops, "panics": panics})
}

/// like judge_c04, but payload iteration also runs on compressed payloads (sanitizer replays: the
/// C decompressors are what valgrind / ASan are there for); output size is bounded by the budget
pub fn judge_c04z(bytes: &[u8]) -> Value {
    let mut v = judge_c04(bytes);
    if let Ok(Ok(pkg)) = guard(|| Package::parse(&mut &bytes[..])) {
        let r = guard(|| {
            let mut n = 0usize;
            if let Ok(it) = pkg.files() {
                for f in it {
                    n += 1;
                    if f.is_err() || n > 10_000 {
                        break;
                    }
                }
            }
            n
        });
        match r {
            Ok(n) => v["compressed_files_iterated"] = json!(n),
            Err(p) => {
                if let Some(a) = v["panics"].as_array_mut() {
                    a.push(json!({"op": "files(compressed)", "message": p.message, "file": p.file, "line": p.line, "frame": p.rpm_frame}));
                }
            }
        }
    }
    v
}

// ---------------------------------------------------------------------------------------------
// parent side: workload families

struct Gen<'a> {
    cases: Vec<Case>,
    labels: Vec<(u64, String)>,
    pending_bytes: usize,
    total: u64,
    ctx: &'a Ctx,
    rep: &'a Report,
    bins: Vec<(&'static str, std::path::PathBuf)>,
    thorough: bool,
    /// a thinned sample of everything generated, replayed under the sanitizers in the thorough tier
    replay_sample: Vec<Vec<u8>>,
}

impl Gen<'_> {
    fn push(&mut self, family: &str, bytes: Vec<u8>) {
        let id = self.cases.len() as u64;
        self.labels.push((id, family.to_string()));
        self.pending_bytes += bytes.len() + 64;
        self.total += 1;
        if self.thorough && self.total % 331 == 0 && self.replay_sample.len() < 6000 && bytes.len() < 20_000 {
            self.replay_sample.push(bytes.clone());
        }
        self.cases.push(Case { id, budget: default_budget(bytes.len()), bytes });
        if self.pending_bytes > (768 << 20) || self.cases.len() >= 400_000 {
            self.flush();
        }
    }
    /// run the pending batch through the workers of every profile and judge the outcomes
    fn flush(&mut self) {
        if self.cases.is_empty() {
            return;
        }
        process_batch(self);
        self.cases.clear();
        self.labels.clear();
        self.pending_bytes = 0;
    }
}

fn base_small() -> Vec<u8> {
    // a small valid package with a string, an i18n string, a string array, ints and a binary entry
    let items = vec![
        (tag::NAME, Val::str("base")),
        (tag::VERSION, Val::str("1")),
        (tag::RELEASE, Val::str("1")),
        (tag::SUMMARY, Val::i18n(&["sum"])),
        (tag::SIZE, Val::Int32(vec![5])),
        (tag::ARCH, Val::str("noarch")),
    ];
    let (he, hs) = layout_with_region(tag::HDR_REGION, &items);
    let (se, ss) = layout_with_region(tag::SIG_REGION, &[(tag::SIG_SHA1, Val::str("da39a3ee5e6b4b0d3255bfef95601890afd80709"))]);
    enc_package(&enc_lead("base"), &enc_header(&se, &ss), &enc_header(&he, &hs), b"")
}

const ACCESSOR_TAGS: [u32; 46] = [
    tag::NAME, tag::EPOCH, tag::SUMMARY, tag::DESCRIPTION, tag::GROUP, tag::BUILDTIME, tag::SIZE, tag::LONGSIZE, tag::PAYLOADCOMPRESSOR, tag::PAYLOADDIGEST,
    tag::PAYLOADDIGESTALGO, tag::BASENAMES, tag::DIRNAMES, tag::DIRINDEXES, tag::FILEMODES, tag::FILESIZES, tag::LONGFILESIZES, tag::FILEMTIMES, tag::FILEDIGESTS, tag::FILELINKTOS,
    tag::FILEFLAGS, tag::FILEUSERNAME, tag::FILEGROUPNAME, tag::FILECAPS, tag::FILEDIGESTALGO, tag::PROVIDENAME, tag::PROVIDEFLAGS, tag::PROVIDEVERSION, tag::REQUIRENAME, tag::REQUIREFLAGS,
    tag::REQUIREVERSION, tag::CHANGELOGNAME, tag::CHANGELOGTIME, tag::CHANGELOGTEXT, tag::PREIN, tag::PREINFLAGS, tag::PREINPROG, tag::SOURCERPM, tag::VERSION, tag::RELEASE,
    tag::ARCH, tag::VENDOR, tag::PACKAGER, tag::LICENSE, tag::URL, tag::COOKIE,
];
const SIG_ACCESSOR_TAGS: [u32; 9] = [tag::SIG_MD5, tag::SIG_SHA1, tag::SIG_SHA256, tag::SIG_OPENPGP, tag::SIG_RSA, tag::SIG_DSA, tag::SIG_PGP, tag::SIG_FILESIGNATURES, tag::SIG_SIZE];

fn family_boundaries(g: &mut Gen<'_>, tier_thorough: bool) {
    // (1a) intro fields
    let base = base_small();
    let p = walk_package(&base).unwrap();
    let len = base.len() as u32;
    // incl. the largest values rpm itself accepts (0xffff entries, 0x0fffffff data bytes) and their neighbours
    let vals = |real: u32| vec![0u32, 1, real.wrapping_sub(1), real, real + 1, len, 0xffff, 1 << 16, 1 << 20, 1 << 24, 0x0fff_ffff, 1 << 28, 1 << 31, u32::MAX - 15, u32::MAX];
    for (h, name) in [(&p.sig, "sig"), (&p.hdr, "hdr")] {
        for il in vals(h.il) {
            for dl in vals(h.dl) {
                let mut m = base.clone();
                m[h.start + 8..h.start + 12].copy_from_slice(&il.to_be_bytes());
                m[h.start + 12..h.start + 16].copy_from_slice(&dl.to_be_bytes());
                g.push(&format!("intro-boundary:{name}"), m);
            }
        }
    }
    // (1b) single index entries
    let stores: Vec<Vec<u8>> = vec![
        b"abc\0de\0\0fgh\0ijklmnop\0qrstuvwxyz012345\0".to_vec(), // terminated strings
        vec![b'x'; 40],                                          // no terminator anywhere
        vec![],                                                  // empty store
        (0u8..64).collect(),
    ];
    let types: Vec<u32> = (0..=10).collect();
    for (which, tags) in [("hdr", &ACCESSOR_TAGS[..]), ("sig", &SIG_ACCESSOR_TAGS[..])] {
        for (ti, t) in tags.iter().enumerate() {
            // the thorough tier takes the full product, the quick tier a diagonal slice of it
            for (si, store) in stores.iter().enumerate() {
                let dl = store.len() as i64;
                let offsets: Vec<i64> = vec![-1, 0, 1, dl - 1, dl, dl + 1, i32::MIN as i64, i32::MAX as i64];
                let counts: Vec<u64> = vec![0, 1, 2, dl as u64, dl as u64 + 1, 1 << 31, u32::MAX as u64, (1 << 28) + 1];
                for typ in &types {
                    for (oi, off) in offsets.iter().enumerate() {
                        for (ci, cnt) in counts.iter().enumerate() {
                            if !tier_thorough && (ti + si + oi + ci + *typ as usize) % 4 != 0 {
                                continue;
                            }
                            let e = RawEntry { tag: *t, typ: *typ, offset: *off as i32, count: *cnt as u32 };
                            let hdr = enc_header(&[e], store);
                            let pkg = if which == "hdr" {
                                let (se, ss) = layout(&[]);
                                enc_package(&enc_lead("e"), &enc_header(&se, &ss), &hdr, b"")
                            } else {
                                let (he, hs) = layout(&[(tag::NAME, Val::str("e"))]);
                                enc_package(&enc_lead("e"), &hdr, &enc_header(&he, &hs), b"")
                            };
                            g.push(&format!("entry-boundary:{which}"), pkg);
                        }
                    }
                }
            }
        }
    }
}

fn family_mutations(g: &mut Gen<'_>, targets: &[(String, Vec<u8>)], tier_thorough: bool, rng: &mut Rng) {
    for (label, b) in targets {
        let meta_len = walk_package_opt(b, true).map(|p| p.payload_start).unwrap_or(b.len()).min(b.len());
        // every truncation (metadata + a little payload)
        let tmax = (meta_len + 64).min(b.len());
        let step = if tier_thorough || tmax < 3000 { 1 } else { 3 };
        let mut t = 0;
        while t <= tmax {
            g.push(&format!("truncation:{label}"), b[..t].to_vec());
            t += step;
        }
        // single-byte mutations over the metadata
        let stride = if tier_thorough { 1 } else if meta_len > 4000 { 4 } else { 1 };
        let off0 = rng.usize(stride);
        let mut i = off0;
        while i < meta_len {
            let orig = b[i];
            let mut vals = vec![0u8, 0xff, orig.wrapping_add(1), orig.wrapping_sub(1)];
            for bit in 0..8 {
                vals.push(orig ^ (1 << bit));
            }
            vals.sort();
            vals.dedup();
            for v in vals {
                if v != orig {
                    let mut m = b.clone();
                    m[i] = v;
                    g.push(&format!("byte-mutation:{label}"), m);
                }
            }
            i += stride;
        }
    }
}

fn family_storms(g: &mut Gen<'_>, targets: &[(String, Vec<u8>)], n: usize, rng: &mut Rng) {
    for k in 0..n {
        let (label, b) = &targets[k % targets.len()];
        let Ok(p) = walk_package_opt(b, true) else { continue };
        let mut m = b.clone();
        let edits = 1 + rng.usize(5);
        for _ in 0..edits {
            let h = if rng.bool() { &p.sig } else { &p.hdr };
            if h.entries.is_empty() {
                continue;
            }
            let ei = rng.usize(h.entries.len());
            let at = h.start + 16 + ei * 16;
            match rng.below(5) {
                0 => {
                    let v = [0u32, 1, 6, 8, 9, 7, 4, 10][rng.usize(8)];
                    m[at + 4..at + 8].copy_from_slice(&v.to_be_bytes());
                }
                1 => {
                    let v = [0i32, -1, h.dl as i32 - 1, h.dl as i32, i32::MAX, rng.below(h.dl as u64 + 1) as i32][rng.usize(6)];
                    m[at + 8..at + 12].copy_from_slice(&v.to_be_bytes());
                }
                2 => {
                    let v = [0u32, 1, h.dl, h.dl / 2, 1 << 20, 1 << 31, u32::MAX, rng.below(64) as u32][rng.usize(8)];
                    m[at + 12..at + 16].copy_from_slice(&v.to_be_bytes());
                }
                3 => {
                    let v = ACCESSOR_TAGS[rng.usize(ACCESSOR_TAGS.len())];
                    m[at..at + 4].copy_from_slice(&v.to_be_bytes());
                }
                _ => {
                    // knock out a terminator in the store
                    if h.dl > 0 {
                        let s = h.store_start + rng.usize(h.dl as usize);
                        m[s] = b'A';
                    }
                }
            }
        }
        g.push(&format!("mutation-storm:{label}"), m);
    }
    // quadratic amplification: many string-array entries aliasing one long unterminated-ish region
    for (nent, slen) in [(64usize, 4096usize), (256, 8192), (512, 16384), (4096, 65536)] {
        let mut store = vec![b'a'; slen];
        store.push(0);
        let entries: Vec<RawEntry> = (0..nent).map(|i| RawEntry { tag: ACCESSOR_TAGS[i % ACCESSOR_TAGS.len()], typ: if i % 2 == 0 { 8 } else { 6 }, offset: 0, count: 1 }).collect();
        let hdr = enc_header(&entries, &store);
        let (se, ss) = layout(&[]);
        g.push("aliasing-amplification", enc_package(&enc_lead("q"), &enc_header(&se, &ss), &hdr, b""));
        // every byte of the region is the start of another (suffix) string
        let entries: Vec<RawEntry> = (0..nent).map(|i| RawEntry { tag: 1000 + i as u32, typ: 6, offset: i as i32, count: 1 }).collect();
        let hdr = enc_header(&entries, &store);
        g.push("aliasing-amplification", enc_package(&enc_lead("q"), &enc_header(&se, &ss), &hdr, b""));
    }
}

fn family_cpio(g: &mut Gen<'_>, rng: &mut Rng, n_random: usize) {
    let files = vec![HFile::new("/etc/", "a.conf", 0o100644, b"hello"), HFile::new("/usr/bin/", "tool", 0o100755, b"#!/bin/sh\n"), HFile::new("/usr/", "lnk", 0o120777, b"")];
    let good = |i: usize| -> Vec<u8> {
        let c: &[u8] = [&b"hello"[..], &b"#!/bin/sh\n"[..], &b""[..]][i];
        mcpio::enc_newc(&[b".".as_slice(), &files[i].path()].concat(), files[i].mode as u32, i as u32 + 1, c)
    };
    let mk = |archive: Vec<u8>| package_with_files("cpio", &files, &archive, None, false);
    let hdr13 = |namesize: u32, filesize: u32| -> [u32; 13] { [1, 0o100644, 0, 0, 1, 0, filesize, 0, 0, 0, 0, namesize, 0] };
    let mut archives: Vec<Vec<u8>> = Vec::new();
    // name length family
    for ns in [0u32, 1, 2, 4095, 4096, 4097, 65536, 1 << 24, 1 << 31, u32::MAX] {
        let mut a = mcpio::enc_newc_header(b"070701", hdr13(ns, 5), b"./etc/a.conf\0");
        a.extend_from_slice(b"\0\0hello\0\0\0");
        a.extend(mcpio::enc_trailer());
        archives.push(a);
        // with a name of exactly that many bytes present
        if ns <= 65536 && ns > 0 {
            let mut name = vec![b'n'; ns as usize - 1];
            name.push(0);
            let mut a = mcpio::enc_newc_header(b"070701", hdr13(ns, 0), &name);
            while a.len() % 4 != 0 {
                a.push(0);
            }
            a.extend(mcpio::enc_trailer());
            archives.push(a);
        }
    }
    // unterminated / non-UTF-8 names
    archives.push([mcpio::enc_newc_header(b"070701", hdr13(5, 0), b"abcde"), mcpio::enc_trailer()].concat());
    archives.push([mcpio::enc_newc_header(b"070701", hdr13(4, 0), &[0xff, 0xfe, 0xfd, 0]), vec![0, 0], mcpio::enc_trailer()].concat());
    // well-formed names in every prefix style (with "./", with "/", bare as in source packages) whose
    // first bytes are multi-byte characters, so that any fixed byte offset falls inside one of them
    for stem in ["日本語.patch", "aé.spec", "é", "éé", "a\u{301}b", "🦀.rs", "ü/ö", ".é", "..é", "x\u{7f}\u{80}"] {
        for prefix in ["", "./", "/", ".", "//", "./."] {
            let mut name = format!("{prefix}{stem}").into_bytes();
            name.push(0);
            let mut a = mcpio::enc_newc_header(b"070701", hdr13(name.len() as u32, 3), &name);
            while a.len() % 4 != 0 {
                a.push(0);
            }
            a.extend_from_slice(b"abc\0");
            a.extend(mcpio::enc_trailer());
            archives.push(a);
        }
    }
    // long runs of members that the header does not list (and of members it lists again and again):
    // whatever the reader does with them, it must not need a stack frame per member
    for n in if g.thorough { vec![300usize, 3000, 30_000, 100_000] } else { vec![300usize, 3000, 30_000] } {
        for listed in [false, true] {
            let one = if listed { good(0) } else { mcpio::enc_newc(b"./not-in-the-header", 0o100644, 7, b"") };
            let mut a = Vec::with_capacity(one.len() * n + 200);
            for _ in 0..n {
                a.extend_from_slice(&one);
            }
            a.extend(good(1));
            a.extend(mcpio::enc_trailer());
            archives.push(a);
        }
    }
    // non-hex fields
    let mut a = good(0);
    a[6..14].copy_from_slice(b"zzzzzzzz");
    archives.push(a);
    let mut a = good(0);
    a[54..62].copy_from_slice(b"-0000001");
    archives.push(a);
    let mut a = good(0);
    a[54..62].copy_from_slice(b"+0000005");
    archives.push(a);
    // sizes beyond the data, missing trailer, truncated archive
    for fs in [6u32, 4096, 1 << 20, 1 << 31, u32::MAX] {
        let mut a = mcpio::enc_newc_header(b"070701", hdr13(13, fs), b"./etc/a.conf\0");
        a.extend_from_slice(b"\0\0hello");
        archives.push(a);
    }
    archives.push([good(0), good(1)].concat()); // no trailer
    archives.push(good(0)[..50].to_vec());
    archives.push(Vec::new());
    // wrong magic
    for mg in [b"070700", b"07070Y", b"\0\0\0\0\0\0", b"070707"] {
        let mut a = good(0);
        a[..6].copy_from_slice(mg);
        archives.push(a);
    }
    // stripped entries
    for idx in ["00000000", "00000001", "00000002", "00000003", "000000ff", "7fffffff", "80000000", "ffffffff", "fffffffe", "zzzzzzzz"] {
        for padded in [true, false] {
            let mut a = b"07070X".to_vec();
            a.extend_from_slice(idx.as_bytes());
            if padded {
                a.extend_from_slice(b"\0\0");
            }
            a.extend_from_slice(b"hello\0\0\0");
            a.extend(mcpio::enc_trailer());
            archives.push(a);
        }
    }
    // crc-magic entries and dracut-style zero padded names
    let mut a = mcpio::enc_newc(b"./etc/a.conf", 0o100644, 1, b"hello");
    a[..6].copy_from_slice(b"070702");
    a.extend(mcpio::enc_trailer());
    archives.push(a);
    archives.push([mcpio::enc_newc_header(b"070701", hdr13(16, 0), b"./etc/a.conf\0\0\0\0"), vec![0, 0], mcpio::enc_trailer()].concat());
    for a in archives {
        g.push("hostile-cpio", mk(a));
    }
    // a "crc" (070702) member whose bytes add up to more than 2^32 (17 MB of 0xff): a reader that
    // checks c_check must do it in wrapping or wide arithmetic (matters in overflow-checking builds)
    {
        let body = vec![0xffu8; 16_850_000];
        for check in [0u32, 0xdead_beef] {
            let mut name = b"./etc/a.conf".to_vec();
            name.push(0);
            let mut a = mcpio::enc_newc_header(b"070702", [1, 0o100644, 0, 0, 1, 0, body.len() as u32, 0, 0, 0, 0, name.len() as u32, check], &name);
            while a.len() % 4 != 0 {
                a.push(0);
            }
            a.extend_from_slice(&body);
            while a.len() % 4 != 0 {
                a.push(0);
            }
            a.extend(mcpio::enc_trailer());
            let mut big = files.clone();
            big[0].size = body.len() as u64;
            g.push("crc-member-sum", package_with_files("cpio", &big, &a, None, false));
        }
    }
    // the layout rpmbuild writes for hard links: n members of one inode with nlink = n and no data,
    // all listed in the header, the last one carrying the content. Nothing here is malformed; memory
    // must stay proportional to the input, not to links x content
    for (n, size) in [(50usize, 20_000usize), (400, 300_000), (1500, 100_000)] {
        let content = vec![b'h'; size];
        let mut hl: Vec<HFile> = Vec::new();
        let mut a = Vec::new();
        for i in 0..n {
            let last = i + 1 == n;
            let body: &[u8] = if last { &content } else { b"" };
            hl.push(HFile::new("/h/", &format!("link{i:04}"), 0o100644, &content));
            let mut name = format!("./h/link{i:04}").into_bytes();
            name.push(0);
            let mut e = mcpio::enc_newc_header(b"070701", [5, 0o100644, 0, 0, n as u32, 0, body.len() as u32, 0, 0, 0, 0, name.len() as u32, 0], &name);
            while e.len() % 4 != 0 {
                e.push(0);
            }
            e.extend_from_slice(body);
            while e.len() % 4 != 0 {
                e.push(0);
            }
            a.extend(e);
        }
        a.extend(mcpio::enc_trailer());
        g.push("hard-links", package_with_files("hardlinks", &hl, &a, None, false));
    }
    // random byte-level mutations of a valid archive
    let valid = [good(0), good(1), good(2), mcpio::enc_trailer()].concat();
    for _ in 0..n_random {
        let mut a = valid.clone();
        for _ in 0..1 + rng.usize(4) {
            let i = rng.usize(a.len());
            a[i] = match rng.below(4) {
                0 => b'f',
                1 => b'0',
                2 => rng.next() as u8,
                _ => a[i].wrapping_add(1),
            };
        }
        if rng.chance(1, 5) {
            let k = rng.usize(a.len());
            a.truncate(k);
        }
        g.push("hostile-cpio-random", mk(a));
    }
    // files with large recorded sizes for stripped entries (size comes from the header)
    let mut big = files.clone();
    big[0].size = u32::MAX as u64;
    let mut a = mcpio::enc_stripped(0, b"hello");
    a.extend(mcpio::enc_trailer());
    g.push("hostile-cpio", package_with_files("cpio", &big, &a, None, false));
    big[0].size = 1 << 40;
    g.push("hostile-cpio", package_with_files("cpio", &big, &a, None, true));
}

/// signature tags holding an OpenPGP packet header that announces a huge body (the packet parser of
/// the pgp dependency allocates the announced length before reading)
/// the 16 bytes a region tag points at are an index entry of their own (tag, type, offset, count)
/// that no index-entry mutation reaches: boundary products over its four fields, in both headers
fn family_region_trailer(g: &mut Gen<'_>, targets: &[(String, Vec<u8>)]) {
    let mut bases: Vec<Vec<u8>> = vec![base_small()];
    bases.extend(targets.iter().take(3).map(|(_, b)| b.clone()));
    for b in &bases {
        let Ok(p) = walk_package(b) else { continue };
        for (h, region_tag) in [(&p.sig, tag::SIG_REGION), (&p.hdr, tag::HDR_REGION)] {
            if h.il == 0 {
                continue;
            }
            let e0 = h.start + 16;
            let tg = u32::from_be_bytes([b[e0], b[e0 + 1], b[e0 + 2], b[e0 + 3]]);
            if tg != region_tag {
                continue;
            }
            let off = u32::from_be_bytes([b[e0 + 8], b[e0 + 9], b[e0 + 10], b[e0 + 11]]) as usize;
            let store = h.start + 16 + 16 * h.il as usize;
            let at = store + off;
            if at + 16 > b.len() {
                continue;
            }
            let il16 = 16 * h.il as i64;
            let offsets: Vec<i64> = vec![0, 1, -1, -15, -16, -17, -il16, -il16 + 16, -il16 - 16, 16, il16, i32::MIN as i64, i32::MAX as i64];
            for t in [region_tag, 0, 100, 1000, if region_tag == 62 { 63 } else { 62 }] {
                for ty in [7u32, 0, 4, 6] {
                    for o in &offsets {
                        for c in [16u32, 0, 1, 15, 17, u32::MAX] {
                            let mut m = b.clone();
                            m[at..at + 4].copy_from_slice(&t.to_be_bytes());
                            m[at + 4..at + 8].copy_from_slice(&ty.to_be_bytes());
                            m[at + 8..at + 12].copy_from_slice(&(*o as i32).to_be_bytes());
                            m[at + 12..at + 16].copy_from_slice(&c.to_be_bytes());
                            g.push("region-trailer", m);
                        }
                    }
                }
            }
        }
    }
}

/// well-formed headers whose RELATED tags disagree with each other: a locale table longer or
/// shorter than the i18n entries it indexes ("C" at every position), per-file arrays, dependency
/// triples, changelog triples and scriptlet tag groups of unequal lengths or mixed types
fn family_cross_tags(g: &mut Gen<'_>, rng: &mut Rng, n_random: usize) {
    let strs = |n: usize, stem: &str| -> Vec<Vec<u8>> { (0..n).map(|i| format!("{stem}{i}").into_bytes()).collect() };
    let mk = |items: Vec<(u32, Val)>| -> Vec<u8> {
        let mut items = items;
        items.sort_by_key(|(t, _)| *t);
        items.dedup_by_key(|(t, _)| *t);
        let (he, hs) = layout(&items);
        let (se, ss) = layout(&[]);
        enc_package(&enc_lead("x"), &enc_header(&se, &ss), &enc_header(&he, &hs), b"")
    };
    // locale table x i18n entries
    let tables: Vec<Vec<&str>> = vec![vec![], vec!["C"], vec!["de"], vec!["de", "C"], vec!["C", "de"], vec!["de", "fr", "C"], vec!["de", "C", "fr", "ja"], vec!["c"], vec!["C", "C"]];
    for table in &tables {
        for n in 1..=4usize {
            for table_val in 0..3 {
                let tv = match table_val {
                    0 => Val::StrArray(table.iter().map(|s| s.as_bytes().to_vec()).collect()),
                    1 => Val::I18n(table.iter().map(|s| s.as_bytes().to_vec()).collect()),
                    _ => Val::Str(table.first().unwrap_or(&"").as_bytes().to_vec()),
                };
                let mut items = vec![(tag::NAME, Val::str("i18n")), (tag::SUMMARY, Val::I18n(strs(n, "summary"))), (tag::DESCRIPTION, Val::I18n(strs(n.saturating_sub(1).max(1), "description"))), (tag::GROUP, Val::I18n(strs(1, "group")))];
                if !(table.is_empty() && table_val != 2) {
                    items.push((tag::I18NTABLE, tv));
                }
                g.push("cross-tags:i18n-table", mk(items));
            }
        }
    }
    // headers WITHOUT a name tag behind leads whose 66-byte name field has no terminator, is empty,
    // or is not UTF-8 (whatever falls back on the lead must cope with it)
    for name_field in [vec![b'n'; 66], vec![0u8; 66], vec![0xffu8; 66], { let mut v = vec![b'x'; 65]; v.push(0); v }] {
        for with_name in [false, true] {
            let mut items = vec![(tag::VERSION, Val::str("1")), (tag::RELEASE, Val::str("1")), (tag::ARCH, Val::str("noarch"))];
            if with_name {
                items.push((tag::NAME, Val::str("named")));
            }
            let mut pkg = mk(items);
            pkg[10..76].copy_from_slice(&name_field);
            g.push("cross-tags:lead-name", pkg);
        }
    }
    // file digests of exactly the length of their algorithm whose text is not hex: multi-byte
    // characters at odd and even offsets, invalid UTF-8, NUL-free control characters, upper case
    for (algo, len) in [(8u32, 64usize), (1, 32), (2, 40), (10, 128)] {
        for (k, filler) in ["é", "語", "🦀", "\u{80}", "G", " ", "\u{7f}"].iter().enumerate() {
            for at in [0usize, 1, 2, 3, len / 2, len / 2 + 1, len - filler.len().min(len), len.saturating_sub(filler.len() + 1)] {
                let mut d: Vec<u8> = std::iter::repeat(b'a').take(len).collect();
                let fb = filler.as_bytes();
                if at + fb.len() <= len {
                    d[at..at + fb.len()].copy_from_slice(fb);
                }
                if k == 3 {
                    d[at.min(len - 1)] = 0xff; // not UTF-8 at all
                }
                let items = vec![
                    (tag::NAME, Val::str("digest")),
                    (tag::BASENAMES, Val::StrArray(vec![b"f".to_vec()])),
                    (tag::DIRNAMES, Val::StrArray(vec![b"/".to_vec()])),
                    (tag::DIRINDEXES, Val::Int32(vec![0])),
                    (tag::FILEMODES, Val::Int16(vec![0o100644])),
                    (tag::FILESIZES, Val::Int32(vec![0])),
                    (tag::FILEMTIMES, Val::Int32(vec![0])),
                    (tag::FILEFLAGS, Val::Int32(vec![0])),
                    (tag::FILEUSERNAME, Val::StrArray(vec![b"root".to_vec()])),
                    (tag::FILEGROUPNAME, Val::StrArray(vec![b"root".to_vec()])),
                    (tag::FILELINKTOS, Val::StrArray(vec![vec![]])),
                    (tag::FILEDIGESTS, Val::StrArray(vec![d])),
                    (tag::FILEDIGESTALGO, Val::Int32(vec![algo])),
                ];
                g.push("cross-tags:digest-text", mk(items));
            }
        }
    }
    // random disagreement between the members of tag groups
    for _ in 0..n_random {
        let mut items: Vec<(u32, Val)> = vec![(tag::NAME, Val::str("x"))];
        let cnt = |r: &mut Rng| [0usize, 1, 1, 2, 3, 5][r.usize(6)];
        let any = |r: &mut Rng, n: usize, kind: u64| -> Val {
            match kind {
                0 => Val::StrArray((0..n).map(|i| format!("s{i}").into_bytes()).collect()),
                1 => Val::Int32((0..n).map(|i| if r.chance(1, 6) { r.next() as u32 } else { i as u32 }).collect()),
                2 => Val::Int16((0..n).map(|_| [0o100644u16, 0o040755, 0o120777, 0, 0xffff][r.usize(5)]).collect()),
                3 => Val::Int64((0..n).map(|_| r.below(1 << 40)).collect()),
                4 => Val::Str(b"single".to_vec()),
                5 => Val::I18n((0..n.max(1)).map(|i| format!("t{i}").into_bytes()).collect()),
                _ => Val::Bin(vec![7u8; n.max(1)]),
            }
        };
        // (tag, natural kind)
        let groups: [&[(u32, u64)]; 6] = [
            &[(tag::BASENAMES, 0), (tag::DIRNAMES, 0), (tag::DIRINDEXES, 1), (tag::FILEMODES, 2), (tag::FILESIZES, 1), (tag::LONGFILESIZES, 3), (tag::FILEMTIMES, 1), (tag::FILEDIGESTS, 0), (tag::FILEFLAGS, 1), (tag::FILEUSERNAME, 0), (tag::FILEGROUPNAME, 0), (tag::FILELINKTOS, 0), (tag::FILECAPS, 0), (tag::FILEDIGESTALGO, 1), (tag::FILEVERIFYFLAGS, 1)],
            &[(tag::REQUIRENAME, 0), (tag::REQUIREFLAGS, 1), (tag::REQUIREVERSION, 0), (tag::PROVIDENAME, 0), (tag::PROVIDEFLAGS, 1), (tag::PROVIDEVERSION, 0)],
            &[(tag::CHANGELOGTIME, 1), (tag::CHANGELOGNAME, 0), (tag::CHANGELOGTEXT, 0)],
            &[(tag::PREIN, 4), (tag::PREINPROG, 0), (tag::PREINFLAGS, 1), (tag::VERIFYSCRIPT, 4), (tag::VERIFYSCRIPTPROG, 0), (tag::VERIFYSCRIPTFLAGS, 1)],
            &[(tag::I18NTABLE, 0), (tag::SUMMARY, 5), (tag::DESCRIPTION, 5), (tag::GROUP, 5)],
            &[(tag::PAYLOADDIGEST, 0), (tag::PAYLOADDIGESTALGO, 1), (tag::PAYLOADDIGESTALT, 0), (tag::PAYLOADCOMPRESSOR, 4), (tag::PAYLOADFORMAT, 4)],
        ];
        let ngroups = 1 + rng.usize(3);
        for _ in 0..ngroups {
            let grp = groups[rng.usize(groups.len())];
            let base_n = cnt(rng);
            for (t, kind) in grp {
                if rng.chance(1, 6) {
                    continue; // member missing
                }
                let n = if rng.chance(2, 3) { base_n } else { cnt(rng) };
                let kind = if rng.chance(1, 10) { rng.below(7) } else { *kind };
                if n == 0 && !matches!(kind, 4 | 5 | 6) {
                    continue; // a count of 0 is not encodable as a well-formed entry
                }
                items.push((*t, any(rng, n, kind)));
            }
        }
        g.push("cross-tags:random", mk(items));
    }
}

fn family_pgp(g: &mut Gen<'_>) {
    use base64::Engine;
    let (he, hs) = layout_with_region(tag::HDR_REGION, &[(tag::NAME, Val::str("pgp")), (tag::VERSION, Val::str("1")), (tag::RELEASE, Val::str("1")), (tag::ARCH, Val::str("noarch"))]);
    let hdr = enc_header(&he, &hs);
    for len in [1u32 << 20, 64 << 20, 512 << 20, (1 << 30) - 1, 1 << 30, u32::MAX] {
        // new-format packet, tag 2 (signature), five-octet length
        let mut pkt = vec![0xC2u8, 0xFF];
        pkt.extend_from_slice(&len.to_be_bytes());
        pkt.extend_from_slice(&[4, 0, 1, 8, 0, 0]);
        // old-format packet, tag 2, four-octet length
        let mut old = vec![0x8Au8];
        old.extend_from_slice(&len.to_be_bytes());
        old.extend_from_slice(&[4, 0, 1, 8, 0, 0]);
        for p in [pkt, old] {
            for t in [tag::SIG_RSA, tag::SIG_DSA, tag::SIG_PGP] {
                let (se, ss) = layout_with_region(tag::SIG_REGION, &[(t, Val::Bin(p.clone()))]);
                g.push("pgp-packet-length", enc_package(&enc_lead("pgp"), &enc_header(&se, &ss), &hdr, b""));
            }
            let b64 = base64::engine::general_purpose::STANDARD.encode(&p).into_bytes();
            let (se, ss) = layout_with_region(tag::SIG_REGION, &[(tag::SIG_OPENPGP, Val::StrArray(vec![b64]))]);
            g.push("pgp-packet-length", enc_package(&enc_lead("pgp"), &enc_header(&se, &ss), &hdr, b""));
        }
    }
}

fn family_garbage(g: &mut Gen<'_>, rng: &mut Rng, n: usize) {
    g.push("garbage", Vec::new());
    g.push("garbage", LEAD_MAGIC.to_vec());
    g.push("garbage", enc_lead("x"));
    for _ in 0..n {
        let k = rng.usize(400);
        let mut b = rng.bytes(k);
        if rng.bool() && b.len() >= 4 {
            b[..4].copy_from_slice(&LEAD_MAGIC);
        }
        if rng.bool() && b.len() >= 100 {
            b[96..99].copy_from_slice(&HDR_MAGIC);
            b[99] = 1;
        }
        g.push("garbage", b);
    }
}

fn class_key(profile: &str, op: &str, out: &Outcome) -> String {
    let _ = profile;
    let _ = op;
    out.site()
}

/// total bytes the index entries of both headers decode to, relative to the bytes present: entries
/// may alias one store region, each is decoded into its own owned value
fn aliasing_ratio(bytes: &[u8]) -> f64 {
    let Ok(p) = walk_package_opt(bytes, true) else { return 0.0 };
    let mut total = 0usize;
    for h in [&p.sig, &p.hdr] {
        let store = h.store(bytes);
        for e in &h.entries {
            if let Ok(n) = data_len(store, e) {
                total += n;
            }
        }
    }
    total as f64 / bytes.len().max(1) as f64
}

fn run(ctx: &Ctx, rep: &Report) {
    let thorough = ctx.tier.pick(false, true);
    let mut rng = Rng::for_case(ctx.seed, "C04", 0);
    let keys = load_keys(&ctx.repo_dir).unwrap_or_default();
    let mut targets = crate::checks::c01::small_packages(ctx, &keys);
    if let Ok(b) = std::fs::read(ctx.asset("test_assets/fixture_packages/rpm-empty-0-0.x86_64.rpm")) {
        targets.push(("asset-rpm-empty".into(), b));
    }
    if thorough {
        if let Ok(b) = std::fs::read(ctx.asset("test_assets/ima_signed.rpm")) {
            targets.push(("asset-ima-signed".into(), b));
        }
    }
    targets.push(("hand-encoded-base".into(), base_small()));
    if targets.len() < 3 {
        rep.inconclusive("could not prepare the valid base packages");
        return;
    }
    let bins = worker_binaries();
    if bins.len() < 2 {
        rep.inconclusive("verifdbg worker binary not available");
    }
    let mut g = Gen { cases: Vec::new(), labels: Vec::new(), pending_bytes: 0, total: 0, ctx, rep, bins, thorough, replay_sample: Vec::new() };
    family_boundaries(&mut g, thorough);
    family_cpio(&mut g, &mut rng, ctx.tier.pick(3000, 60_000));
    family_garbage(&mut g, &mut rng, ctx.tier.pick(2000, 50_000));
    family_pgp(&mut g);
    family_cross_tags(&mut g, &mut rng, ctx.tier.pick(1500, 60_000));
    family_region_trailer(&mut g, &targets);
    family_storms(&mut g, &targets, ctx.tier.pick(20_000, 400_000), &mut rng);
    family_mutations(&mut g, &targets, thorough, &mut rng);
    g.flush();
    rep.count("inputs_generated", g.total);
    if thorough {
        let sample = std::mem::take(&mut g.replay_sample);
        sanitizer_replays(ctx, rep, sample, &mut rng);
    }
    feature_sets(ctx, rep);
    // the same reader behind Package::open on a path that is not a regular file: valid packages and
    // prefixes of them arriving through a pipe (what stat() says about such a path is meaningless)
    for (label, b) in &targets {
        for cut in [b.len(), b.len() / 2, 97, 0] {
            rep.eval(1);
            let d = &b[..cut.min(b.len())];
            match guard(|| crate::util::open_through_pipe(d)) {
                Ok(_) => rep.count("open_through_pipe.returned", 1),
                Err(p) => rep.violation(format!("panic:open-on-pipe:{}", p.site()), format!("Package::open on a pipe carrying {} bytes of {label} panics: {}", d.len(), p.message), json!({"family": "open-on-pipe", "input_hex": hex::encode(d)}), d.len() as u64),
            }
        }
    }
}

/// hostile compressed payloads around a valid file list
fn compressed_corpus(rng: &mut Rng, per_compressor: usize) -> Vec<Vec<u8>> {
    let files = vec![HFile::new("/etc/", "a.conf", 0o100644, b"hello hello hello hello"), HFile::new("/usr/bin/", "tool", 0o100755, &vec![b'x'; 3000])];
    let archive = [
        mcpio::enc_newc(b"./etc/a.conf", 0o100644, 1, b"hello hello hello hello"),
        mcpio::enc_newc(b"./usr/bin/tool", 0o100755, 2, &vec![b'x'; 3000]),
        mcpio::enc_trailer(),
    ]
    .concat();
    let mut out = Vec::new();
    for comp in ["gzip", "zstd", "xz", "bzip2"] {
        let payload = mcpio::compress(comp, &archive);
        out.push(package_with_files("z", &files, &payload, Some(comp), false));
        for k in 0..per_compressor {
            let mut p = payload.clone();
            match k % 4 {
                0 => {
                    let i = rng.usize(p.len());
                    p[i] ^= 1 << rng.below(8);
                }
                1 => {
                    let cut = rng.usize(p.len());
                    p.truncate(cut);
                }
                2 => {
                    for _ in 0..1 + rng.usize(6) {
                        let i = rng.usize(p.len());
                        p[i] = rng.next() as u8;
                    }
                }
                _ => {
                    let i = rng.usize(p.len());
                    let n = 1 + rng.usize(16);
                    let extra = rng.bytes(n);
                    p.splice(i..i, extra);
                }
            }
            out.push(package_with_files("z", &files, &p, Some(comp), false));
        }
    }
    out
}

fn tool_ok(cmd: &str, args: &[&str]) -> bool {
    std::process::Command::new(cmd).args(args).stdout(std::process::Stdio::null()).stderr(std::process::Stdio::null()).status().map(|s| s.success()).unwrap_or(false)
}

/// Replays of a corpus sample under valgrind memcheck, AddressSanitizer and Miri. A report of any of
/// them is a violation (memory error reached from untrusted bytes); a tool that is not available or
/// does not build is recorded in the evidence and does not count either way.
fn sanitizer_replays(ctx: &Ctx, rep: &Report, sample: Vec<Vec<u8>>, rng: &mut Rng) {
    let manifest = std::env::var("VERIF_MANIFEST").unwrap_or_else(|_| ctx.verif_dir.join("harness/Cargo.toml").display().to_string());
    let target_base = std::env::var("CARGO_TARGET_DIR").unwrap_or_else(|_| ctx.verif_dir.join("target").display().to_string());
    let release_bin = worker_binaries().into_iter().next().map(|b| b.1);
    let compressed = compressed_corpus(rng, 250);
    rep.count("sanitizer.sample_uncompressed_inputs", sample.len() as u64);
    rep.count("sanitizer.compressed_payload_inputs", compressed.len() as u64);
    let mk_cases = |v: &[Vec<u8>]| -> Vec<Case> { v.iter().enumerate().map(|(i, b)| Case { id: i as u64, budget: default_budget(b.len()).max(64 << 20), bytes: b.clone() }).collect() };
    let judge_outcomes = |tool: &str, marker: &[&str], cases: &[Case], outs: Vec<(u64, Outcome)>| {
        let mut done = 0u64;
        for (id, out) in outs {
            rep.eval(1);
            let bytes = &cases[id as usize].bytes;
            match out {
                Outcome::Done { value, .. } => {
                    done += 1;
                    for p in value["panics"].as_array().cloned().unwrap_or_default() {
                        rep.violation(format!("panic:{}", crate::util::par::site_of(p["file"].as_str().unwrap_or(""), p["frame"].as_str().unwrap_or(""), p["message"].as_str().unwrap_or(""))), format!("[{tool} replay] {} panics: {}", p["op"], p["message"]), json!({"family": format!("{tool}-replay"), "input_hex": hex::encode(bytes)}), bytes.len() as u64);
                    }
                }
                Outcome::Crash { status, stderr_tail } => {
                    if marker.iter().any(|m| stderr_tail.contains(m)) {
                        rep.violation(format!("{tool}:report"), format!("{tool} reports a memory error on a {}-byte input: {stderr_tail}", bytes.len()), json!({"family": format!("{tool}-replay"), "input_hex": hex::encode(bytes)}), bytes.len() as u64);
                    } else {
                        rep.note(format!("{tool} replay: worker died without a {tool} report ({status}): {stderr_tail}"));
                    }
                }
                Outcome::Alloc { .. } => rep.count(&format!("sanitizer.{tool}.alloc_budget_trips(known findings / decompression output)"), 1),
                Outcome::Timeout { .. } => rep.count(&format!("sanitizer.{tool}.timeouts(not judged)"), 1),
                Outcome::Panic { message, .. } => rep.note(format!("{tool} replay: judge panicked: {message}")),
            }
        }
        rep.count(&format!("sanitizer.{tool}.inputs_completed"), done);
    };

    // ---- valgrind memcheck on the release binary (sees inside the C decompressors)
    if let (true, Some(bin)) = (tool_ok("valgrind", &["--version"]), release_bin.clone()) {
        let logdir = ctx.work_dir("valgrind");
        let mut inputs: Vec<Vec<u8>> = compressed.clone();
        inputs.extend(sample.iter().take(1500).cloned());
        let cases = mk_cases(&inputs);
        let l = Launcher {
            program: "valgrind".into(),
            pre_args: vec!["--quiet".into(), "--error-exitcode=99".into(), "--errors-for-leak-kinds=none".into(), format!("--log-file={}/vg.%p.log", logdir.display()), bin.display().to_string()],
            env: vec![],
        };
        let outs = run_cases_with(&l, "c04z", &[], &cases, ctx.threads, Duration::from_secs(300));
        judge_outcomes("valgrind", &["Invalid read", "Invalid write", "uninitialised", "Invalid free"], &cases, outs);
        // memcheck keeps going after an error: reports are in the log files
        let mut reports = 0u64;
        if let Ok(rd) = std::fs::read_dir(&logdir) {
            for e in rd.flatten() {
                let t = std::fs::read_to_string(e.path()).unwrap_or_default();
                if t.contains("Invalid read") || t.contains("Invalid write") || t.contains("uninitialised value") || t.contains("Invalid free") || t.contains("Mismatched free") {
                    reports += 1;
                    let first: String = t.lines().filter(|l| l.contains("==")).take(14).collect::<Vec<_>>().join(" | ");
                    rep.violation("valgrind:report", format!("valgrind memcheck reports a memory error during the replay: {first}"), json!({"family": "valgrind-replay", "log": first}), 1);
                }
            }
        }
        rep.count("sanitizer.valgrind.reports", reports);
        let _ = std::fs::remove_dir_all(&logdir);
    } else {
        rep.note("valgrind not available: memcheck replay skipped");
    }

    // ---- AddressSanitizer build of the harness (nightly)
    let asan_target = format!("{target_base}/asan");
    let built = std::process::Command::new("cargo")
        .args(["+nightly", "build", "--offline", "--quiet", "--release", "--target", "x86_64-unknown-linux-gnu", "--manifest-path", &manifest])
        .env("RUSTFLAGS", "-Zsanitizer=address -Cforce-frame-pointers=yes")
        .env("CARGO_TARGET_DIR", &asan_target)
        .env("CARGO_NET_OFFLINE", "true")
        .stdout(std::process::Stdio::null())
        .stderr(std::process::Stdio::null())
        .status()
        .map(|s| s.success())
        .unwrap_or(false);
    let asan_bin = std::path::PathBuf::from(format!("{asan_target}/x86_64-unknown-linux-gnu/release/rpmverif"));
    if built && asan_bin.exists() {
        let mut inputs: Vec<Vec<u8>> = compressed.clone();
        inputs.extend(sample.iter().cloned());
        let cases = mk_cases(&inputs);
        let l = Launcher { program: asan_bin, pre_args: vec![], env: vec![("ASAN_OPTIONS".into(), "halt_on_error=1:abort_on_error=1:detect_leaks=1:allocator_may_return_null=1".into()), ("VERIF_NO_RLIMIT".into(), "1".into())] };
        let outs = run_cases_with(&l, "c04z", &[], &cases, ctx.threads, Duration::from_secs(120));
        judge_outcomes("asan", &["AddressSanitizer", "LeakSanitizer"], &cases, outs);
    } else {
        rep.note("AddressSanitizer build of the harness failed or nightly is missing: ASan replay skipped");
    }

    // ---- Miri (no FFI: uncompressed inputs only, a few hundred)
    if tool_ok("cargo", &["+nightly", "miri", "--version"]) {
        let miri_target = format!("{target_base}/miri");
        let inputs: Vec<Vec<u8>> = sample.iter().filter(|b| b.len() < 4096).take(480).cloned().collect();
        let cases = mk_cases(&inputs);
        let l = Launcher {
            program: "cargo".into(),
            pre_args: vec!["+nightly".into(), "miri".into(), "run".into(), "--offline".into(), "--quiet".into(), "--manifest-path".into(), manifest.clone(), "--".into()],
            env: vec![("MIRIFLAGS".into(), "-Zmiri-disable-isolation".into()), ("CARGO_TARGET_DIR".into(), miri_target), ("CARGO_NET_OFFLINE".into(), "true".into())],
        };
        // build once before the parallel runs
        let _ = std::process::Command::new("cargo").args(["+nightly", "miri", "run", "--offline", "--quiet", "--manifest-path", &manifest, "--", "selftest"]).envs(l.env.iter().map(|(k, v)| (k.as_str(), v.as_str()))).stdout(std::process::Stdio::null()).stderr(std::process::Stdio::null()).status();
        let outs = run_cases_with(&l, "c04", &[], &cases, ctx.threads, Duration::from_secs(600));
        judge_outcomes("miri", &["Undefined Behavior", "error: unsupported operation"], &cases, outs);
    } else {
        rep.note("Miri not available: UB-interpreter replay skipped");
    }
}

fn process_batch(g: &mut Gen<'_>) {
    let (ctx, rep, thorough) = (g.ctx, g.rep, g.thorough);
    let mut fam_counts: BTreeMap<String, u64> = BTreeMap::new();
    for (_, l) in &g.labels {
        *fam_counts.entry(format!("family.{}", l.split(':').next().unwrap_or(""))).or_insert(0) += 1;
    }
    rep.counts(&fam_counts);
    rep.nontrivial_many(g.cases.iter().map(|c| hash_bytes(&c.bytes)));
    if rep.sample_count() < 8 {
        for i in [0usize, g.cases.len() / 3, g.cases.len() / 2, g.cases.len() - 1] {
            rep.sample(json!({"family": g.labels[i].1, "len": g.cases[i].bytes.len(), "input_hex": crate::util::hex_trunc(&g.cases[i].bytes, 160)}));
        }
    }
    for (profile, bin) in &g.bins {
        // the overflow-checking build is ~5x slower: it gets every 2nd case in the quick tier
        let subset: Vec<Case> = if *profile == "verifdbg" && !thorough {
            g.cases.iter().filter(|c| c.id % 2 == 0).map(|c| Case { id: c.id, budget: c.budget, bytes: c.bytes.clone() }).collect()
        } else {
            g.cases.iter().map(|c| Case { id: c.id, budget: c.budget, bytes: c.bytes.clone() }).collect()
        };
        let timeout = Duration::from_secs(if *profile == "verifdbg" { 30 } else { 15 });
        let outs = run_cases(bin, "c04", &subset, ctx.threads, timeout);
        let mut local: BTreeMap<String, u64> = BTreeMap::new();
        let mut max_peak_ratio = 0f64;
        for (id, out) in &outs {
            rep.eval(1);
            let bytes = &g.cases[*id as usize].bytes;
            let fam = &g.labels[*id as usize].1;
            let w = || json!({"family": fam, "profile": profile, "input_hex": hex::encode(bytes)});
            match out {
                Outcome::Done { value, peak, .. } => {
                    *local.entry(format!("{profile}.outcome.{}", value["outcome"].as_str().unwrap_or("?"))).or_insert(0) += 1;
                    *local.entry(format!("{profile}.operations")).or_insert(0) += value["ops"].as_u64().unwrap_or(0);
                    let ratio = *peak as f64 / (bytes.len().max(1) as f64);
                    if bytes.len() > 512 && ratio > max_peak_ratio {
                        max_peak_ratio = ratio;
                    }
                    for p in value["panics"].as_array().cloned().unwrap_or_default() {
                        let o = Outcome::Panic {
                            message: p["message"].as_str().unwrap_or("").into(),
                            file: p["file"].as_str().unwrap_or("").into(),
                            line: p["line"].as_u64().unwrap_or(0),
                            frame: p["frame"].as_str().unwrap_or("").into(),
                        };
                        let opn = p["op"].as_str().unwrap_or("?");
                        rep.violation(
                            class_key(profile, opn, &o),
                            format!("{opn} panics ({profile} build) on a {}-byte input [{fam}]: {} at {}:{} in {}", bytes.len(), p["message"].as_str().unwrap_or(""), p["file"].as_str().unwrap_or(""), p["line"], p["frame"].as_str().unwrap_or("?")),
                            w(),
                            bytes.len() as u64,
                        );
                        *local.entry(format!("{profile}.panics")).or_insert(0) += 1;
                    }
                }
                Outcome::Panic { message, file, line, frame } => {
                    rep.violation(class_key(profile, "judge", out), format!("panic ({profile}) [{fam}]: {message} at {file}:{line} in {frame}"), w(), bytes.len() as u64);
                    *local.entry(format!("{profile}.panics")).or_insert(0) += 1;
                }
                Outcome::Alloc { request, live, site } => {
                    // many entries aliasing one large region: memory is (entries x region), a known finding
                    let key = if aliasing_ratio(bytes) > 64.0 { "alloc-budget:overlapping-entries".to_string() } else { out.site() };
                    rep.violation(
                        key,
                        format!("allocation out of proportion ({profile}) [{fam}] in {site}: a {}-byte input asks for {} bytes (live {} bytes, budget {})", bytes.len(), request, live, default_budget(bytes.len())),
                        w(),
                        bytes.len() as u64,
                    );
                    *local.entry(format!("{profile}.alloc_budget_trips")).or_insert(0) += 1;
                }
                Outcome::Crash { status, stderr_tail } => {
                    let kind = if stderr_tail.contains("memory allocation of") { "abort:memory-allocation-failed".to_string() } else if stderr_tail.contains("overflowed its stack") { "abort:stack-overflow".to_string() } else { format!("crash:{status}") };
                    rep.violation(kind, format!("worker died ({profile}) [{fam}] on a {}-byte input: {status}; stderr: {stderr_tail}", bytes.len()), w(), bytes.len() as u64);
                    *local.entry(format!("{profile}.crashes")).or_insert(0) += 1;
                }
                Outcome::Timeout { confirmed } => {
                    if *confirmed && bytes.len() <= 65536 {
                        rep.violation("non-termination", format!("no result within 10x the watchdog ({profile}) [{fam}] on a {}-byte input", bytes.len()), w(), bytes.len() as u64);
                    } else {
                        rep.inconclusive(format!("watchdog fired on case {id} [{fam}] ({profile}) and was not confirmed"));
                    }
                    *local.entry(format!("{profile}.timeouts")).or_insert(0) += 1;
                }
            }
        }
        if outs.len() != subset.len() {
            rep.inconclusive(format!("{profile}: {} of {} cases returned no outcome", subset.len() - outs.len(), subset.len()));
        }
        let key = format!("{profile}.max_peak_heap_over_input_len_x100");
        let prev = rep.get_count(&key);
        let cur = (max_peak_ratio * 100.0) as u64;
        if cur > prev {
            rep.count(&key, cur - prev);
        }
        rep.counts(&local);
    }
}

/// reading the repository's packages (xz / zstd / gzip payloads) with builds of the library that
/// lack the matching decompressor: an error is fine, a panic is not
fn feature_sets(ctx: &Ctx, rep: &Report) {
    for o in crate::util::probe::observations(ctx, rep) {
        let kind = o.fields.first().map(|s| s.as_str()).unwrap_or("");
        if !(kind == "asset" || kind == "reread") {
            continue;
        }
        rep.eval(1);
        rep.count(&format!("feature_set_reads.{}", o.set), 1);
        if o.fields.iter().skip(1).any(|f| f.contains("panic")) {
            rep.violation(
                format!("panic:feature-set:{kind}"),
                format!("built with feature set {}: reading panics ({})", o.set, o.fields.join(" ")),
                json!({"kind": "feature-probe", "set": o.set, "observation": o.fields.join(" ")}),
                0,
            );
        }
    }
}

fn replay(_ctx: &Ctx, w: &serde_json::Value, rep: &Report) {
    let bytes = hex::decode(w["input_hex"].as_str().unwrap_or("")).unwrap_or_default();
    let case = Case { id: 0, budget: default_budget(bytes.len()), bytes };
    for (profile, bin) in worker_binaries() {
        let outs = run_cases(&bin, "c04", std::slice::from_ref(&case), 1, Duration::from_secs(60));
        for (_, o) in outs {
            println!("monitor[{profile}]: {:?}", o);
            match &o {
                Outcome::Done { value, .. } => {
                    for p in value["panics"].as_array().cloned().unwrap_or_default() {
                        rep.violation(format!("panic:{}", p["op"]), p["message"].as_str().unwrap_or("").to_string(), w.clone(), 0);
                    }
                }
                other => rep.violation(other.site(), format!("{other:?}"), w.clone(), 0),
            }
        }
    }
}
