//! C02 — signature verification never succeeds without a verified signature.

use super::CheckDef;
use crate::gen::build::*;
use crate::model::codec::*;
use crate::monitor::verifier::RecVerifier;
use crate::monitor::worker::*;
use crate::util::par::{guard, par_for};
use crate::util::report::{Ctx, Meta, Report};
use crate::util::rng::{hash_bytes, hash_str, Rng};
use crate::util::sha256_hex;
use base64::Engine;
use rpm::Package;
use serde_json::{json, Value};
use std::collections::BTreeMap;
use std::sync::OnceLock;
use std::time::Duration;

pub fn def() -> CheckDef {
    CheckDef { id: "C02", run, meta, dbg: false, replay: Some(replay) }
}

fn meta(_ctx: &Ctx) -> Meta {
    Meta {
        level: "exploration",
        rule: "(a) signature headers synthesised by the harness encoder around real header + payload bytes: the product of OpenPGP tag {absent, string array with 0..3 base64 items, malformed / empty base64, wrong data types} x RSA / DSA / legacy-PGP tags {absent, binary, wrong type} x digest tags {none, correct, wrong, a strict prefix of the true value, empty} x verifier scripts {all accept, reject at call 1..4, all reject}; a recording implementation of the public Verifying trait logs every call (hash + length of the data, signature bytes); success is judged against the log: >= 1 call, no rejected call, every call handed exactly header (or header+payload for the legacy tag) bytes with a signature taken from the package, all recorded digests matching. (b) packages built and signed by the library with RSA-4096, protected RSA-3072, Ed25519 and ECDSA-P256 keys: every single-bit flip of the main header and of (a bounded part of) the payload plus seeded multi-byte edits; for gzip / zstd / xz / bzip2 payloads in addition every bit of the first 24 and last 16 bytes of the compressed stream (member / frame / stream headers and trailers) and bytes appended after the payload (zeros, text, an empty second member); structurally consistent extensions of the signed main header (one more index entry with its data appended behind the signed content); run in worker processes with the real pgp verifier; a mutant that parses to a different value must not verify. distinct_nontrivial = distinct (shape, script) executions that returned Ok or had calls + distinct mutants that parsed to a changed value (c) histories on one object: every signed base of (b) that has just verified is changed in memory through its public content field (first / last bit, middle byte, byte appended, one byte cut, emptied) on the same object, on a clone of the verified object and on a clone verified first, and asked again: success of verify_signature or verify_digests is a violation (counter c.object_histories_judged)".into(),
        assumptions: vec!["pgp crate verifies correctly; signature blobs in part (a) are opaque to the recording verifier".into()],
        floor_distinct: 500,
    }
}

// ---------------------------------------------------------------------------------------------
// (a) recording verifier over synthesised signature headers

#[derive(Clone, Debug)]
struct Shape {
    /// None absent; Some(Ok(items)) string array of base64 texts; Some(Err(val)) wrong-typed value
    openpgp: Option<Result<Vec<Vec<u8>>, Val>>,
    openpgp_kind: &'static str,
    rsa: Option<Val>,
    dsa: Option<Val>,
    pgp: Option<Val>,
    digests: &'static str,
}

fn b64(b: &[u8]) -> Vec<u8> {
    base64::engine::general_purpose::STANDARD.encode(b).into_bytes()
}

struct Base {
    lead: Vec<u8>,
    hdr: Vec<u8>,
    payload: Vec<u8>,
    /// the main header records a SHA-256 payload digest (so a modified payload must be noticed)
    has_payload_digest: bool,
    /// the main header names a payload digest algorithm the library cannot compute (SHA-3, unknown
    /// numbers): verification cannot succeed, whatever the verifier says
    unsupported_payload_algo: bool,
}

fn base_of(bytes: &[u8]) -> Option<Base> {
    let p = walk_package(bytes).ok()?;
    let has_payload_digest = p.hdr.get_strs(bytes, tag::PAYLOADDIGEST).map(|v| v.len() == 1).unwrap_or(false) && p.hdr.get_u32s(bytes, tag::PAYLOADDIGESTALGO).map(|v| v.first() == Some(&8)).unwrap_or(false) && bytes.len() > p.payload_start;
    Some(Base { lead: bytes[..96].to_vec(), hdr: p.hdr.canonical_image(bytes), payload: bytes[p.payload_start..].to_vec(), has_payload_digest, unsupported_payload_algo: false })
}

const SIG_O: [&[u8]; 3] = [b"openpgp-signature-blob-number-one", b"openpgp-signature-blob-number-two!", b"openpgp-signature-blob-number-three"];
const SIG_RSA: &[u8] = b"legacy-rsa-header-only-signature";
const SIG_DSA: &[u8] = b"legacy-dsa-header-only-signature";
const SIG_PGP: &[u8] = b"legacy-pgp-header+payload-signature";

fn shapes() -> Vec<Shape> {
    let mut openpgps: Vec<(Option<Result<Vec<Vec<u8>>, Val>>, &'static str)> = vec![(None, "absent")];
    for k in 0..=3usize {
        openpgps.push((Some(Ok((0..k).map(|i| b64(SIG_O[i])).collect())), ["array-0", "array-1", "array-2", "array-3"][k]));
    }
    openpgps.push((Some(Ok(vec![b"!!!not base64!!!".to_vec()])), "malformed-base64"));
    openpgps.push((Some(Ok(vec![Vec::new()])), "empty-base64"));
    openpgps.push((Some(Ok(vec![b64(SIG_O[0]), b"@@@".to_vec()])), "valid-then-malformed"));
    openpgps.push((Some(Err(Val::Bin(SIG_O[0].to_vec()))), "wrong-type-bin"));
    openpgps.push((Some(Err(Val::Str(b64(SIG_O[0])))), "wrong-type-string"));
    openpgps.push((Some(Err(Val::Int32(vec![1, 2]))), "wrong-type-int32"));
    openpgps.push((Some(Err(Val::I18n(vec![b64(SIG_O[0])]))), "i18n-array-1"));
    let legacy = |sig: &[u8]| -> Vec<Option<Val>> { vec![None, Some(Val::Bin(sig.to_vec())), Some(Val::Str(sig.to_vec()))] };
    let mut v = Vec::new();
    for (o, ok) in &openpgps {
        for r in legacy(SIG_RSA) {
            for d in legacy(SIG_DSA) {
                for p in legacy(SIG_PGP) {
                    for dg in ["none", "sha256-ok", "sha256-wrong", "sha256-prefix-wrong", "sha256-empty-wrong", "sha1-prefix-wrong", "sha256-nonhex-wrong", "sha256-oddlen-wrong", "sha1-nonhex-wrong", "sha1+md5-ok", "md5-wrong", "payload-wrong", "size-small", "longsize-small", "size-zero"] {
                        v.push(Shape { openpgp: o.clone(), openpgp_kind: ok, rsa: r.clone(), dsa: d.clone(), pgp: p.clone(), digests: dg });
                    }
                }
            }
        }
    }
    v
}

/// payload as it is put into the package for a shape ("payload-wrong": one byte differs from what
/// the main header's payload digest records)
fn payload_of(base: &Base, sh: &Shape) -> Vec<u8> {
    let mut p = base.payload.clone();
    if sh.digests == "payload-wrong" {
        if let Some(last) = p.last_mut() {
            *last ^= 0x01;
        }
    }
    p
}

fn synth(base: &Base, sh: &Shape) -> Vec<u8> {
    use sha2::Digest;
    let payload = payload_of(base, sh);
    let mut items: Vec<(u32, Val)> = Vec::new();
    match &sh.openpgp {
        None => {}
        Some(Ok(list)) => items.push((tag::SIG_OPENPGP, Val::StrArray(list.clone()))),
        Some(Err(v)) => items.push((tag::SIG_OPENPGP, v.clone())),
    }
    if let Some(v) = &sh.rsa {
        items.push((tag::SIG_RSA, v.clone()));
    }
    if let Some(v) = &sh.dsa {
        items.push((tag::SIG_DSA, v.clone()));
    }
    if let Some(v) = &sh.pgp {
        items.push((tag::SIG_PGP, v.clone()));
    }
    let sha256 = sha256_hex(&base.hdr);
    match sh.digests {
        "sha256-ok" => items.push((tag::SIG_SHA256, Val::str(&sha256))),
        "sha256-wrong" => {
            let mut w = sha256.into_bytes();
            w[10] = if w[10] == b'0' { b'1' } else { b'0' };
            items.push((tag::SIG_SHA256, Val::Str(w)));
        }
        // a recorded digest that is only a prefix of the true one (down to nothing) is wrong as well
        "sha256-prefix-wrong" => items.push((tag::SIG_SHA256, Val::str(&sha256[..40]))),
        "sha256-empty-wrong" => items.push((tag::SIG_SHA256, Val::str(""))),
        "sha1-prefix-wrong" => items.push((tag::SIG_SHA1, Val::str(&hex::encode(sha1::Sha1::digest(&base.hdr))[..39]))),
        // size tags of the (unsigned) signature header that understate what follows: what a
        // signature covers does not depend on them
        "size-small" => items.push((tag::SIG_SIZE, Val::Int32(vec![base.hdr.len() as u32 + 1]))),
        "longsize-small" => items.push((tag::SIG_LONGSIGSIZE, Val::Int64(vec![base.hdr.len() as u64 / 2]))),
        "size-zero" => items.push((tag::SIG_SIZE, Val::Int32(vec![0]))),
        // a recorded digest that is not hex text at all (one character off the alphabet, odd length)
        // is a digest that does not match, not a digest that is not there
        "sha256-nonhex-wrong" => {
            let mut w = sha256.clone().into_bytes();
            w[10] ^= 0x40;
            items.push((tag::SIG_SHA256, Val::Str(w)));
        }
        "sha256-oddlen-wrong" => items.push((tag::SIG_SHA256, Val::str(&sha256[..63]))),
        "sha1-nonhex-wrong" => {
            let mut w = hex::encode(sha1::Sha1::digest(&base.hdr)).into_bytes();
            w[0] = b'g';
            items.push((tag::SIG_SHA1, Val::Str(w)));
        }
        "sha1+md5-ok" | "md5-wrong" => {
            items.push((tag::SIG_SHA1, Val::str(&hex::encode(sha1::Sha1::digest(&base.hdr)))));
            let mut m = md5::Md5::new();
            m.update(&base.hdr);
            m.update(&payload);
            let mut d = m.finalize().to_vec();
            if sh.digests == "md5-wrong" {
                d[3] ^= 4;
            }
            items.push((tag::SIG_MD5, Val::Bin(d)));
        }
        _ => {}
    }
    items.sort_by_key(|(t, _)| *t);
    let (se, ss) = layout_with_region(tag::SIG_REGION, &items);
    enc_package(&base.lead, &enc_header(&se, &ss), &base.hdr, &payload)
}

fn judge_shape(base: &Base, sh: &Shape, script: &[bool], default_answer: bool) -> (Vec<(String, String)>, usize, bool) {
    let bytes = synth(base, sh);
    let mut out = Vec::new();
    let pkg = match Package::parse(&mut &bytes[..]) {
        Ok(p) => p,
        Err(e) => {
            out.push(("synthesised-package-rejected".to_string(), format!("harness-built package does not parse: {e}")));
            return (out, 0, false);
        }
    };
    let rv = RecVerifier::new(script.to_vec(), default_answer);
    let res = pkg.verify_signature(&rv);
    let calls = rv.take();
    let h = sha256_hex(&base.hdr);
    let payload = payload_of(base, sh);
    let hp = sha256_hex(&[base.hdr.as_slice(), payload.as_slice()].concat());
    let shape_class = format!(
        "openpgp={},rsa={},dsa={},pgp={}",
        sh.openpgp_kind,
        sh.rsa.as_ref().map(|v| if v.typ() == 7 { "bin" } else { "wrong-type" }).unwrap_or("absent"),
        sh.dsa.as_ref().map(|v| if v.typ() == 7 { "bin" } else { "wrong-type" }).unwrap_or("absent"),
        sh.pgp.as_ref().map(|v| if v.typ() == 7 { "bin" } else { "wrong-type" }).unwrap_or("absent"),
    );
    if res.is_ok() {
        if base.unsupported_payload_algo {
            out.push(("ok-with-unverifiable-payload-digest".to_string(), format!("verify_signature returns Ok although the payload digest is recorded with an algorithm the library cannot compute, or its first recorded string is wrong ({shape_class})")));
        }
        if calls.is_empty() {
            out.push((format!("ok-without-verifier-call:openpgp={}", sh.openpgp_kind), format!("verify_signature returns Ok although the verifier was never consulted ({shape_class}, digests {})", sh.digests)));
        }
        if calls.iter().any(|c| !c.answer) {
            out.push(("ok-although-verifier-rejected".to_string(), format!("verify_signature returns Ok although the verifier rejected call #{} ({shape_class})", calls.iter().position(|c| !c.answer).unwrap())));
        }
        if sh.digests.ends_with("wrong") && (sh.digests != "payload-wrong" || base.has_payload_digest) {
            out.push((format!("ok-although-digest-mismatch:{}", sh.digests), format!("verify_signature returns Ok although a recorded digest is wrong ({shape_class})")));
        }
    }
    // what each call must have been handed
    let opaque_b64 = matches!(sh.openpgp_kind, "malformed-base64" | "empty-base64" | "valid-then-malformed");
    for (i, c) in calls.iter().enumerate() {
        let which = if SIG_O.iter().any(|s| *s == c.signature.as_slice()) {
            Some(("openpgp", &h, base.hdr.len()))
        } else if c.signature == SIG_RSA {
            Some(("rsa", &h, base.hdr.len()))
        } else if c.signature == SIG_DSA {
            Some(("dsa", &h, base.hdr.len()))
        } else if c.signature == SIG_PGP {
            Some(("pgp", &hp, base.hdr.len() + payload.len()))
        } else {
            None
        };
        match which {
            None => {
                if !opaque_b64 {
                    out.push(("verifier-given-foreign-signature".to_string(), format!("call #{i}: the verifier was handed signature bytes that are in none of the package's signature tags ({shape_class})")));
                }
            }
            Some((t, want, len)) => {
                if &c.data_sha256 != want || c.data_len != len {
                    out.push((format!("verifier-given-wrong-data:{t}"), format!("call #{i} ({t} signature): verifier was handed {} bytes hashing to {}…, must cover {} bytes hashing to {}… ({shape_class})", c.data_len, &c.data_sha256[..12], len, &want[..12])));
                }
            }
        }
    }
    (out, calls.len(), res.is_ok())
}

// ---------------------------------------------------------------------------------------------
// (b) real verifier on mutants of library-signed packages (child side)

struct MutCtx {
    original: Package,
    verifier: rpm::signature::pgp::Verifier,
}
static MUT_CTX: OnceLock<Option<MutCtx>> = OnceLock::new();

fn mut_ctx() -> Option<&'static MutCtx> {
    MUT_CTX
        .get_or_init(|| {
            let args = WORKER_ARGS.get()?;
            let base = std::fs::read(args.first()?).ok()?;
            let key = std::fs::read(args.get(1)?).ok()?;
            Some(MutCtx { original: Package::parse(&mut &base[..]).ok()?, verifier: rpm::signature::pgp::Verifier::load_from_asc_bytes(&key).ok()? })
        })
        .as_ref()
}

/// child side: {"parsed": bool, "changed": bool, "verified": bool}
pub fn judge_c02b(bytes: &[u8]) -> Value {
    let Some(cx) = mut_ctx() else { return json!({"error": "no context"}) };
    match guard(|| Package::parse(&mut &bytes[..])) {
        Err(_) => json!({"parsed": false, "parse_panicked": true}),
        Ok(Err(_)) => json!({"parsed": false}),
        Ok(Ok(p)) => {
            let changed = p.metadata != cx.original.metadata || p.content != cx.original.content;
            let verified = p.verify_signature(&cx.verifier).is_ok();
            json!({"parsed": true, "changed": changed, "verified": verified})
        }
    }
}

fn run(ctx: &Ctx, rep: &Report) {
    let thorough = ctx.tier.pick(false, true);
    let keys = match load_keys(&ctx.repo_dir) {
        Ok(k) => k,
        Err(e) => {
            rep.inconclusive(format!("cannot load test keys: {e}"));
            return;
        }
    };
    // ---- (a)
    let smalls = crate::checks::c01::small_packages(ctx, &keys);
    let mut bases: Vec<Base> = smalls.iter().take(2).filter_map(|(_, b)| base_of(b)).collect();
    if thorough {
        for rel in ["test_assets/fixture_packages/rpm-empty-0-0.x86_64.rpm", "test_assets/freesrp-udev-0.3.0-1.25.x86_64.rpm"] {
            if let Some(b) = std::fs::read(ctx.asset(rel)).ok().and_then(|b| base_of(&b)) {
                bases.push(b);
            }
        }
    }
    if bases.is_empty() {
        rep.inconclusive("no base package for the synthesised signature headers");
        return;
    }
    // hand-encoded bases whose (signed) main header announces a payload digest algorithm the library
    // cannot compute: 12 and 14 are SHA3-256 / SHA3-512, 99 is nobody's
    {
        // two payload digest strings, the first wrong, the second right: a mismatch under every reading
        let payload = b"payload of the two-digest base".to_vec();
        let right = sha256_hex(&payload);
        let mut wrong = right.clone().into_bytes();
        wrong[3] = if wrong[3] == b'0' { b'1' } else { b'0' };
        let mut items: Vec<(u32, Val)> = vec![(tag::NAME, Val::str("two")), (tag::VERSION, Val::str("1")), (tag::RELEASE, Val::str("1")), (tag::ARCH, Val::str("noarch")), (tag::PAYLOADDIGEST, Val::StrArray(vec![wrong, right.into_bytes()])), (tag::PAYLOADDIGESTALGO, Val::Int32(vec![8]))];
        items.sort_by_key(|(t, _)| *t);
        let (he, hs) = layout_with_region(tag::HDR_REGION, &items);
        bases.push(Base { lead: enc_lead("two"), hdr: enc_header(&he, &hs), payload, has_payload_digest: false, unsupported_payload_algo: true });
    }
    for algo in [12u32, 14, 99] {
        let payload = b"payload of the unsupported-algorithm base".to_vec();
        let mut items: Vec<(u32, Val)> = vec![(tag::NAME, Val::str("algo")), (tag::VERSION, Val::str("1")), (tag::RELEASE, Val::str("1")), (tag::ARCH, Val::str("noarch")), (tag::PAYLOADDIGEST, Val::StrArray(vec![sha256_hex(&payload).into_bytes()])), (tag::PAYLOADDIGESTALGO, Val::Int32(vec![algo]))];
        items.sort_by_key(|(t, _)| *t);
        let (he, hs) = layout_with_region(tag::HDR_REGION, &items);
        bases.push(Base { lead: enc_lead("algo"), hdr: enc_header(&he, &hs), payload, has_payload_digest: false, unsupported_payload_algo: true });
    }
    let shapes = shapes();
    rep.count("a.shapes", shapes.len() as u64);
    let scripts: Vec<(Vec<bool>, bool)> = vec![(vec![], true), (vec![false], true), (vec![true, false], true), (vec![true, true, false], true), (vec![true, true, true, false], true), (vec![], false)];
    for (bi, base) in bases.iter().enumerate() {
        par_for(ctx.threads, shapes.len() as u64, 16, |si| {
            let sh = &shapes[si as usize];
            let mut local: BTreeMap<String, u64> = BTreeMap::new();
            for (sci, (script, def)) in scripts.iter().enumerate() {
                rep.eval(1);
                match guard(|| judge_shape(base, sh, script, *def)) {
                    Ok((vs, ncalls, ok)) => {
                        *local.entry("a.verifier_calls_observed".into()).or_insert(0) += ncalls as u64;
                        *local.entry(if ok { "a.results_ok" } else { "a.results_err" }.into()).or_insert(0) += 1;
                        if ok || ncalls > 0 {
                            rep.nontrivial((bi as u64) << 48 | si << 8 | sci as u64);
                        }
                        for (k, what) in vs {
                            rep.violation(k, what, json!({"part": "a", "base": bi, "shape": format!("{sh:?}"), "script": script, "default_answer": def, "shape_index": si, "script_index": sci}), si * 10 + sci as u64);
                        }
                    }
                    // a panic on a (well-formed) synthesised package: short-signature logging etc. belong to C04
                    Err(_) => *local.entry("a.panicked(judged by C04)".into()).or_insert(0) += 1,
                }
            }
            rep.counts(&local);
        });
    }
    rep.sample(json!({"part": "a", "shape": format!("{:?}", shapes[shapes.len() / 2]), "scripts": scripts.iter().map(|s| json!(s.0)).collect::<Vec<_>>()}));
    // ---- (b)
    let dir = ctx.work_dir("signed");
    let mut rng = Rng::for_case(ctx.seed, "C02-b", 0);
    let nbases = ctx.tier.pick(1, 9);
    for (ki, key) in keys.iter().enumerate() {
        // bases 0..nbases get every kind of modification; the bases after them (one per compressor;
        // in the quick tier only for the fastest key) get the payload and "envelope" modifications only
        let envelope_bases = if thorough || key.name == "ed25519" { 4 } else { 0 };
        for bn in 0..nbases + envelope_bases {
            let envelope_only = bn >= nbases;
            let comp = if envelope_only { ["gzip", "zstd", "xz", "bzip2"][bn - nbases] } else { ["none", "gzip", "zstd"][bn % 3] };
            let mut cfg = BuildCfg { name: format!("signed{bn}"), version: "1.0".into(), license: "MIT".into(), arch: "noarch".into(), summary: "signed package".into(), compression: Some((comp.into(), 3)), source_date: Some(1_600_000_000), ..Default::default() };
            if bn != 1 {
                cfg.files.push(FileCfg { dest: "/etc/signed.conf".into(), content_kind: "text".into(), size: 200 + 500 * bn, content_seed: 7, mode: Some(0o100644), source_perm: 0o644, user: None, group: None, flags: vec![], caps: None, symlink: None, mtime: 1_500_000_000, verify: None });
            }
            let Ok(pkg) = build_signed(&cfg, &dir, &key.signer) else {
                rep.inconclusive(format!("cannot build+sign with {}", key.name));
                continue;
            };
            let bytes = pkg_bytes(&pkg).unwrap();
            // sanity: the unmodified package verifies (else the mutant rule would be vacuous)
            if pkg.verify_signature(&key.verifier).is_err() {
                rep.inconclusive(format!("unmodified package signed with {} does not verify", key.name));
                continue;
            }
            // ---- (c) histories on one OBJECT: the package above has just verified; its public fields are
            // then changed in memory (payload bytes, or the whole payload / metadata of another package) and it is
            // verified again - on the same object, on a clone taken after the successful verification and on
            // a clone that is itself verified first. Success after the change is a violation: verification
            // is a function of the bytes the object holds now, not of what it held when it was last asked
            // (seeded change C02-s: verdict of verify_digests() remembered per object)
            for (mi, mname) in OBJECT_MUTATIONS.iter().enumerate() {
                for (hi, hname) in ["same-object", "clone-of-verified", "clone-verified-again"].iter().enumerate() {
                    rep.eval(1);
                    match guard(|| object_history(&pkg, &key.verifier, mi, hi)) {
                        Ok(Some((sig_ok, dig_ok))) => {
                            rep.nontrivial(hash_str(&format!("c|{ki}|{bn}|{mi}|{hi}")));
                            rep.count("c.object_histories_judged", 1);
                            if sig_ok || dig_ok {
                                rep.violation(
                                    format!("changed-object-verifies:{mname}:{hname}"),
                                    format!("a package signed with {} verified, then its in-memory content was changed ({mname}, {hname}): verify_signature ok={sig_ok}, verify_digests ok={dig_ok}", key.name),
                                    json!({"part": "c", "key": key.name, "mutation": mi, "history": hi, "base_hex": hex::encode(&bytes)}),
                                    bytes.len() as u64,
                                );
                            }
                        }
                        Ok(None) => rep.count("c.object_histories_not_applicable", 1),
                        Err(_) => rep.count("c.panicked(judged by C04)", 1),
                    }
                }
            }
            let basefile = dir.join(format!("base-{ki}-{bn}.rpm"));
            let keyfile = dir.join(format!("key-{ki}.asc"));
            std::fs::write(&basefile, &bytes).unwrap();
            std::fs::write(&keyfile, &key.public_asc).unwrap();
            let p = walk_package(&bytes).unwrap();
            let mut cases: Vec<Case> = Vec::new();
            let mut descr: Vec<String> = Vec::new();
            let mut push = |m: Vec<u8>, d: String, cases: &mut Vec<Case>| {
                descr.push(d);
                cases.push(Case { id: cases.len() as u64, budget: (256u64 << 20) + 64 * m.len() as u64, bytes: m });
            };
            // every bit of the main header (RSA verification is slow: the quick tier strides)
            let stride = if !thorough && key.name.starts_with("rsa") { 3 } else { 1 };
            let mut byte = if envelope_only { p.hdr.end } else { p.hdr.start };
            while byte < p.hdr.end {
                for bit in 0..8 {
                    let mut m = bytes.clone();
                    m[byte] ^= 1 << bit;
                    push(m, format!("header byte {} bit {bit}", byte - p.hdr.start), &mut cases);
                }
                byte += stride;
            }
            // payload bits
            let plen = bytes.len() - p.payload_start;
            let pbits = (plen * 8).min(ctx.tier.pick(2000, 64 * 1024 * 8));
            for k in 0..pbits {
                let bitpos = if plen * 8 <= pbits { k } else { rng.usize(plen * 8) };
                let mut m = bytes.clone();
                m[p.payload_start + bitpos / 8] ^= 1 << (bitpos % 8);
                push(m, format!("payload bit {bitpos}"), &mut cases);
            }
            // the envelope of the compressed stream: every bit of its first 24 and last 16 bytes (gzip
            // member header incl. MTIME/XFL/OS, zstd frame header, xz stream header/footer, bzip2
            // header/trailer), and bytes appended after its end (trailing garbage, a zero byte, a
            // second empty member of the same format)
            if plen > 0 {
                let mut pos: Vec<usize> = (0..plen.min(24)).chain(plen.saturating_sub(16)..plen).collect();
                pos.sort();
                pos.dedup();
                for i in pos {
                    for bit in 0..8 {
                        let mut m = bytes.clone();
                        m[p.payload_start + i] ^= 1 << bit;
                        push(m, format!("envelope byte {i} of {plen} bit {bit}"), &mut cases);
                    }
                }
            }
            let empty_member = if plen >= 2 && bytes[p.payload_start] == 0x1f && bytes[p.payload_start + 1] == 0x8b { mcpio_compress("gzip") } else if plen >= 4 && bytes[p.payload_start..p.payload_start + 4] == [0x28, 0xb5, 0x2f, 0xfd] { mcpio_compress("zstd") } else if plen >= 6 && bytes[p.payload_start..p.payload_start + 6] == [0xfd, b'7', b'z', b'X', b'Z', 0] { mcpio_compress("xz") } else { Vec::new() };
            for tail in [vec![0u8], vec![0u8; 4], b"\n".to_vec(), b"trailing garbage".to_vec(), vec![0u8; 512], empty_member] {
                if tail.is_empty() {
                    continue;
                }
                let mut m = bytes.clone();
                m.extend_from_slice(&tail);
                push(m, format!("appended {} bytes after the payload", tail.len()), &mut cases);
            }
            // structurally consistent EXTENSIONS of the signed main header: one more index entry whose
            // data is appended behind everything the header held when it was signed (entry count and
            // data size raised accordingly) - what rpm's own CVE-2021-3421 was about
            if !envelope_only {
                let il = p.hdr.il as usize;
                let dl = p.hdr.dl as usize;
                let idx_end = p.hdr.start + 16 + 16 * il;
                let store_end = idx_end + dl;
                let exts: [(u32, u32, Vec<u8>, u32); 5] = [
                    (tag::POSTIN, 6, b"echo injected\0".to_vec(), 1),
                    (tag::PREIN, 6, b"rm -rf /\0".to_vec(), 1),
                    (9999, 7, vec![0xab; 5], 5),
                    (tag::PROVIDENAME, 8, b"injected-capability\0".to_vec(), 1),
                    (tag::EPOCH, 4, vec![0, 0, 0, 9], 1),
                ];
                for (t, typ, data, count) in exts {
                    let pad = if typ == 4 { (4 - dl % 4) % 4 } else { 0 };
                    let mut m = Vec::with_capacity(bytes.len() + 64);
                    m.extend_from_slice(&bytes[..p.hdr.start + 8]);
                    m.extend_from_slice(&((il + 1) as u32).to_be_bytes());
                    m.extend_from_slice(&((dl + pad + data.len()) as u32).to_be_bytes());
                    m.extend_from_slice(&bytes[p.hdr.start + 16..idx_end]);
                    m.extend_from_slice(&t.to_be_bytes());
                    m.extend_from_slice(&typ.to_be_bytes());
                    m.extend_from_slice(&((dl + pad) as u32).to_be_bytes());
                    m.extend_from_slice(&count.to_be_bytes());
                    m.extend_from_slice(&bytes[idx_end..store_end]);
                    m.extend(std::iter::repeat(0u8).take(pad));
                    m.extend_from_slice(&data);
                    m.extend_from_slice(&bytes[store_end..]);
                    push(m, format!("header extended by tag {t} type {typ}"), &mut cases);
                }
            }
            // truncations: the whole payload gone, all but its first / last byte gone, half of it gone
            for cut in [p.payload_start, p.payload_start + 1, p.payload_start + plen / 2, bytes.len().saturating_sub(1)] {
                if cut < bytes.len() {
                    push(bytes[..cut].to_vec(), format!("truncated to {cut} of {} bytes (payload starts at {})", bytes.len(), p.payload_start), &mut cases);
                }
            }
            // multi-byte edits in header and payload
            for _ in 0..if envelope_only { ctx.tier.pick(50, 2000) } else { ctx.tier.pick(500, 20_000) } {
                let mut m = bytes.clone();
                let n = 1 + rng.usize(6);
                for _ in 0..n {
                    let i = p.hdr.start + rng.usize(bytes.len() - p.hdr.start);
                    m[i] = rng.next() as u8;
                }
                if rng.chance(1, 10) {
                    let k = p.payload_start + rng.usize(plen + 1);
                    m.truncate(k);
                }
                if rng.chance(1, 10) {
                    m.extend_from_slice(&rng.bytes(5));
                }
                push(m, "multi-byte edit".to_string(), &mut cases);
            }
            let extra = vec![basefile.display().to_string(), keyfile.display().to_string()];
            let bin = worker_binaries().into_iter().next().unwrap().1;
            let outs = run_cases_args(&bin, "c02b", &extra, &cases, ctx.threads, Duration::from_secs(60));
            let mut local: BTreeMap<String, u64> = BTreeMap::new();
            for (id, out) in outs {
                rep.eval(1);
                let kn = key.name;
                match out {
                    Outcome::Done { value, .. } => {
                        if value["parsed"].as_bool() != Some(true) {
                            *local.entry(format!("b.{kn}.mutant-not-parsed")).or_insert(0) += 1;
                        } else if value["changed"].as_bool() != Some(true) {
                            *local.entry(format!("b.{kn}.mutant-parses-to-same-value")).or_insert(0) += 1;
                        } else {
                            rep.nontrivial(hash_bytes(&cases[id as usize].bytes));
                            if value["verified"].as_bool() == Some(true) {
                                rep.violation(
                                    format!("modified-package-verifies:{kn}:{}", descr[id as usize].split(' ').next().unwrap_or("")),
                                    format!("a package signed with {kn} still verifies after a change of its parsed content ({})", descr[id as usize]),
                                    json!({"part": "b", "key": kn, "mutation": descr[id as usize], "base_hex": hex::encode(&bytes), "mutant_hex": hex::encode(&cases[id as usize].bytes)}),
                                    bytes.len() as u64,
                                );
                            } else {
                                *local.entry(format!("b.{kn}.changed-mutant-rejected")).or_insert(0) += 1;
                            }
                        }
                    }
                    other => *local.entry(format!("b.{kn}.crashed(judged by C04).{}", other.site().split(':').next().unwrap_or(""))).or_insert(0) += 1,
                }
            }
            rep.counts(&local);
            if bn == 0 {
                rep.sample(json!({"part": "b", "key": key.name, "signed_package_len": bytes.len(), "header_bits_flipped": (p.hdr.end - p.hdr.start) * 8 / stride, "payload_len": plen}));
            }
        }
    }
    let _ = std::fs::remove_dir_all(&dir);
    if rep.get_count("a.verifier_calls_observed") == 0 {
        rep.inconclusive("the recording verifier was never called");
    }
}

const OBJECT_MUTATIONS: [&str; 6] = ["first-payload-bit", "last-payload-bit", "middle-payload-byte", "payload-byte-appended", "payload-truncated-by-one", "payload-emptied"];

/// (c): `pkg` verifies. Returns what verify_signature / verify_digests say about an object whose payload
/// bytes were changed after a successful verification (None: the change does not apply to this payload).
fn object_history(pkg: &Package, verifier: &rpm::signature::pgp::Verifier, mutation: usize, history: usize) -> Option<(bool, bool)> {
    let mut p = pkg.clone();
    if p.verify_signature(verifier).is_err() || p.verify_digests().is_err() {
        return None;
    }
    if history >= 1 {
        p = p.clone();
    }
    if history == 2 && p.verify_signature(verifier).is_err() {
        return None;
    }
    let n = p.content.len();
    match mutation {
        0 if n > 0 => p.content[0] ^= 1,
        1 if n > 0 => p.content[n - 1] ^= 0x80,
        2 if n > 2 => p.content[n / 2] = p.content[n / 2].wrapping_add(1),
        3 => p.content.push(0),
        4 if n > 0 => p.content.truncate(n - 1),
        5 if n > 0 => p.content.clear(),
        _ => return None,
    }
    if p.content == pkg.content {
        return None;
    }
    let dig_ok = p.verify_digests().is_ok();
    let sig_ok = p.verify_signature(verifier).is_ok();
    Some((sig_ok, dig_ok))
}

fn mcpio_compress(comp: &str) -> Vec<u8> {
    crate::model::cpio::compress(comp, b"")
}

fn replay(ctx: &Ctx, w: &serde_json::Value, rep: &Report) {
    if w["part"].as_str() == Some("a") {
        let keys = load_keys(&ctx.repo_dir).unwrap_or_default();
        let smalls = crate::checks::c01::small_packages(ctx, &keys);
        let bases: Vec<Base> = smalls.iter().take(2).filter_map(|(_, b)| base_of(b)).collect();
        let shapes = shapes();
        let (si, bi) = (w["shape_index"].as_u64().unwrap_or(0) as usize, w["base"].as_u64().unwrap_or(0) as usize);
        let script: Vec<bool> = w["script"].as_array().map(|a| a.iter().map(|b| b.as_bool().unwrap_or(true)).collect()).unwrap_or_default();
        if let (Some(sh), Some(base)) = (shapes.get(si), bases.get(bi)) {
            let (vs, ncalls, ok) = judge_shape(base, sh, &script, w["default_answer"].as_bool().unwrap_or(true));
            println!("monitor: shape {sh:?}: result ok={ok}, {ncalls} verifier call(s)");
            for (k, what) in vs {
                println!("  {k}: {what}");
                rep.violation(k, what, w.clone(), 0);
            }
        }
    } else if w["part"].as_str() == Some("c") {
        let keys = load_keys(&ctx.repo_dir).unwrap_or_default();
        let base = hex::decode(w["base_hex"].as_str().unwrap_or("")).unwrap_or_default();
        if let (Some(k), Ok(orig)) = (keys.iter().find(|k| Some(k.name) == w["key"].as_str()), Package::parse(&mut &base[..])) {
            let r = object_history(&orig, &k.verifier, w["mutation"].as_u64().unwrap_or(0) as usize, w["history"].as_u64().unwrap_or(0) as usize);
            println!("monitor: object history -> (verify_signature ok, verify_digests ok) = {r:?}");
            if let Some((s, d)) = r {
                if s || d {
                    rep.violation("replay", "changed object verifies", w.clone(), 0);
                }
            }
        }
    } else {
        let keys = load_keys(&ctx.repo_dir).unwrap_or_default();
        let base = hex::decode(w["base_hex"].as_str().unwrap_or("")).unwrap_or_default();
        let mutant = hex::decode(w["mutant_hex"].as_str().unwrap_or("")).unwrap_or_default();
        if let (Some(k), Ok(orig), Ok(m)) = (keys.iter().find(|k| Some(k.name) == w["key"].as_str()), Package::parse(&mut &base[..]), Package::parse(&mut &mutant[..])) {
            let changed = m.metadata != orig.metadata || m.content != orig.content;
            let verified = m.verify_signature(&k.verifier).is_ok();
            println!("monitor: mutant changed={changed} verified={verified}");
            if changed && verified {
                rep.violation("replay", "modified package verifies", w.clone(), 0);
            }
        }
    }
}
