//! C20 — timestamp conversion is exact inside the 32-bit range and an error outside.

use super::CheckDef;
use crate::util::par::{guard, par_for};
use crate::util::report::{Ctx, Meta, Report};
use crate::util::rng::Rng;
use chrono::{DateTime, FixedOffset, Utc};
use rpm::{Timestamp, TimestampError};
use serde_json::json;
use std::collections::BTreeMap;
use std::time::{Duration, SystemTime};

pub fn def() -> CheckDef {
    CheckDef { id: "C20", run, meta, dbg: true, replay: Some(replay) }
}

fn meta(_ctx: &Ctx) -> Meta {
    Meta {
        level: "exploration",
        rule: "instants are constructed from integer (seconds, nanoseconds) pairs: every second in windows around 0, 2^31 and 2^32, sub-second offsets (1 ns, 0.5 s, 999 999 999 ns) on both sides of each boundary, extreme representable SystemTime / chrono values, fixed-offset zones from -14h to +14h incl. odd minutes, seeded random instants; each is converted through TryFrom<SystemTime> and TryFrom<DateTime<Tz>> and judged by integer arithmetic (floor seconds in 0..2^32 => exact value, earlier => Underflow, later => Overflow); ordering is checked on sorted samples; source files with mtimes set by utimensat go through PackageBuilder::with_file. Runs in release and in the overflow-checking verifdbg profile (smaller windows there). distinct_nontrivial = distinct (kind, seconds, nanoseconds, zone) tuples".into(),
        assumptions: vec!["SystemTime::UNIX_EPOCH ± Duration and chrono::DateTime::from_timestamp construct the instant they are asked for".into()],
        floor_distinct: 1000,
    }
}

const TWO32: i64 = 1 << 32;

fn expected(secs: i64) -> Result<u32, TimestampError> {
    if secs < 0 {
        Err(TimestampError::Underflow)
    } else if secs >= TWO32 {
        Err(TimestampError::Overflow)
    } else {
        Ok(secs as u32)
    }
}

fn system_time(secs: i64, nanos: u32) -> Option<SystemTime> {
    if secs >= 0 {
        SystemTime::UNIX_EPOCH.checked_add(Duration::new(secs as u64, nanos))
    } else {
        SystemTime::UNIX_EPOCH.checked_sub(Duration::new(secs.unsigned_abs(), 0))?.checked_add(Duration::new(0, nanos))
    }
}

fn show(r: &Result<Timestamp, TimestampError>) -> String {
    match r {
        Ok(t) => format!("Ok({})", t.0),
        Err(e) => format!("{e:?}"),
    }
}

/// judge one instant; zone_secs = Some(offset) => chrono path with that fixed offset, None => SystemTime
fn judge(secs: i64, nanos: u32, zone: Option<i32>) -> Result<bool, (String, String)> {
    let want = expected(secs);
    let got: Result<Timestamp, TimestampError> = match zone {
        None => match system_time(secs, nanos) {
            Some(st) => Timestamp::try_from(st),
            None => return Ok(false),
        },
        Some(off) => {
            let Some(dt) = DateTime::<Utc>::from_timestamp(secs, nanos) else { return Ok(false) };
            if off == 0 {
                Timestamp::try_from(dt)
            } else {
                let Some(fo) = FixedOffset::east_opt(off) else { return Ok(false) };
                // also when the zone's local reading of the instant lies outside chrono's range (an
                // instant within |offset| of MIN_UTC / MAX_UTC): the value exists, only its local
                // rendering does not
                Timestamp::try_from(dt.with_timezone(&fo))
            }
        }
    };
    let got_v = got.map(|t| t.0);
    if got_v != want {
        let class = match (&want, &got_v) {
            (Ok(_), Ok(_)) => "wrong-value",
            (Ok(_), Err(_)) => "error-inside-range",
            (Err(TimestampError::Underflow), _) => "underflow-not-reported",
            (Err(TimestampError::Overflow), _) => "overflow-not-reported",
        };
        return Err((
            format!("{}:{}", if zone.is_some() { "chrono" } else { "systemtime" }, class),
            format!("instant {secs}s+{nanos}ns (zone offset {zone:?}) converts to {} but must be {}", show(&got), show(&want.map(Timestamp))),
        ));
    }
    Ok(true)
}

fn observe(rep: &Report, local: &mut BTreeMap<String, u64>, hs: &mut Vec<u64>, secs: i64, nanos: u32, zone: Option<i32>) {
    match guard(|| judge(secs, nanos, zone)) {
        Ok(Ok(true)) => {
            let class = match expected(secs) {
                Ok(_) => "in_range",
                Err(TimestampError::Underflow) => "underflow",
                Err(TimestampError::Overflow) => "overflow",
            };
            *local.entry(format!("{}.{}", if zone.is_some() { "chrono" } else { "systemtime" }, class)).or_insert(0) += 1;
            hs.push((secs as u64).wrapping_mul(0x9E3779B97F4A7C15) ^ ((nanos as u64) << 20) ^ (zone.map(|z| (z as u64).wrapping_add(1)).unwrap_or(0) << 52));
        }
        Ok(Ok(false)) => *local.entry("unrepresentable_instant_skipped".into()).or_insert(0) += 1,
        Ok(Err((key, what))) => rep.violation(key, what, json!({"secs": secs, "nanos": nanos, "zone": zone}), secs.unsigned_abs()),
        Err(p) => rep.violation(format!("panic:{}", p.site()), format!("panic converting {secs}s+{nanos}ns zone {zone:?}: {}", p.message), json!({"secs": secs, "nanos": nanos, "zone": zone}), secs.unsigned_abs()),
    }
}

const ZONES: [i32; 12] = [0, 3600, -3600, 50400, -50400, 19800, 20700, -34200, 45900, 1, -1, 86399];
const NANOS: [u32; 5] = [0, 1, 500_000_000, 999_999_999, 999_999_998];

fn set_mtime(path: &std::path::Path, secs: i64) -> bool {
    use std::os::unix::ffi::OsStrExt;
    let c = std::ffi::CString::new(path.as_os_str().as_bytes()).unwrap();
    let ts = [libc::timespec { tv_sec: secs, tv_nsec: 0 }, libc::timespec { tv_sec: secs, tv_nsec: 0 }];
    unsafe { libc::utimensat(libc::AT_FDCWD, c.as_ptr(), ts.as_ptr(), 0) == 0 }
}

fn run(ctx: &Ctx, rep: &Report) {
    // a conversion is a function of the instant alone: the whole check runs with reproducible-build
    // and time-zone variables set to values that would show if they were consulted
    std::env::set_var("SOURCE_DATE_EPOCH", ["1000000000", "0", "4102444800", "86400"][(ctx.seed % 4) as usize]);
    std::env::set_var("TZ", ["Pacific/Kiritimati", "America/Los_Angeles", "Asia/Kolkata", "UTC"][(ctx.seed % 4) as usize]);
    let win: i64 = ctx.tier.pick(100_000, 20_000_000) / if ctx.is_dbg() { 20 } else { 1 };
    let centers = [0i64, 1 << 31, TWO32];
    // 0. the seconds next to each boundary with every sub-second offset and every zone
    {
        let mut local = BTreeMap::new();
        let mut hs = Vec::new();
        let mut n = 0u64;
        for c in centers {
            for secs in c - 3..=c + 3 {
                for nanos in NANOS.iter().copied().chain([2, 999, 1_000_000, 123_456_789, 999_999_998]) {
                    observe(rep, &mut local, &mut hs, secs, nanos, None);
                    for z in ZONES {
                        observe(rep, &mut local, &mut hs, secs, nanos, Some(z));
                    }
                    n += 1 + ZONES.len() as u64;
                }
            }
        }
        rep.eval(n);
        rep.count("boundary_second_x_subsecond_x_zone", n);
        rep.counts(&local);
        rep.nontrivial_many(hs);
    }
    // 1. every second in the windows
    for c in centers {
        let total = (2 * win + 1) as u64;
        let chunk = 5000u64;
        par_for(ctx.threads, total.div_ceil(chunk), 1, |k| {
            let mut local = BTreeMap::new();
            let mut hs = Vec::new();
            let end = ((k + 1) * chunk).min(total);
            for i in k * chunk..end {
                let secs = c - win + i as i64;
                let nanos = NANOS[(i % 5) as usize];
                observe(rep, &mut local, &mut hs, secs, nanos, None);
                observe(rep, &mut local, &mut hs, secs, nanos, Some(ZONES[(i % 12) as usize]));
            }
            rep.counts(&local);
            if k % 8 == 0 {
                rep.nontrivial_many(hs);
            }
        });
        rep.eval(total * 2);
    }
    // 2. boundaries x sub-second offsets x all zones
    {
        let mut local = BTreeMap::new();
        let mut hs = Vec::new();
        for c in centers {
            for d in -3i64..=3 {
                for n in NANOS {
                    observe(rep, &mut local, &mut hs, c + d, n, None);
                    for z in ZONES {
                        observe(rep, &mut local, &mut hs, c + d, n, Some(z));
                    }
                    rep.eval(1 + ZONES.len() as u64);
                }
            }
        }
        // 3. extremes
        let ext = [i64::MIN, i64::MIN + 1, -(1i64 << 62), -8_334_601_228_800, -62_167_219_200, -1, 0, 1, TWO32 - 1, TWO32, 8_210_266_876_799, 1 << 40, 1 << 62, i64::MAX - 1, i64::MAX];
        for s in ext {
            for n in [0u32, 999_999_999] {
                observe(rep, &mut local, &mut hs, s, n, None);
                observe(rep, &mut local, &mut hs, s, n, Some(0));
                observe(rep, &mut local, &mut hs, s, n, Some(50400));
                observe(rep, &mut local, &mut hs, s, n, Some(-50400));
                rep.eval(4);
            }
        }
        // instants INSIDE a leap second (chrono: second :59 with 10^9 or more nanoseconds). What
        // number such an instant should map to can be argued (the :59 second or the following one),
        // so both are allowed; but an instant that chrono orders before the epoch is "earlier" and
        // must underflow, and nothing may panic
        {
            use chrono::{NaiveDate, TimeZone};
            for (y, mo, d) in [(2016, 12, 31), (1969, 12, 31), (1972, 6, 30), (1969, 6, 30), (2038, 1, 19), (2106, 2, 7), (2105, 12, 31)] {
                for frac in [0u32, 1, 500_000_000, 999_999_999] {
                    for (h, mi) in [(23u32, 59u32), (3, 14), (6, 28)] {
                        let Some(nd) = NaiveDate::from_ymd_opt(y, mo, d).and_then(|x| x.and_hms_nano_opt(h, mi, 59, 1_000_000_000 + frac)) else { continue };
                        for off in [0i32, 19_800, -28_800] {
                            let dt = chrono::FixedOffset::east_opt(off).unwrap().from_utc_datetime(&nd);
                            rep.eval(1);
                            let ts = dt.timestamp();
                            let before_epoch = dt < DateTime::<Utc>::UNIX_EPOCH;
                            let w = json!({"secs": ts, "nanos": 1_000_000_000u64 + frac as u64, "zone": off, "leap_second": true});
                            match guard(|| Timestamp::try_from(dt)) {
                                Err(p) => rep.violation(format!("panic:{}", p.site()), format!("converting the leap-second instant {dt:?} panics: {}", p.message), w, 0),
                                Ok(got) => {
                                    let ok = if before_epoch {
                                        got == Err(TimestampError::Underflow)
                                    } else {
                                        [ts, ts + 1].iter().any(|t| got.map(|x| x.0) == expected(*t))
                                    };
                                    if !ok {
                                        rep.violation(if before_epoch { "chrono:leap-second-before-epoch" } else { "chrono:leap-second" }, format!("the leap-second instant {dt:?} (timestamp {ts}, before the epoch: {before_epoch}) converts to {}", show(&got)), w, 0);
                                    }
                                    *local.entry("chrono.leap_second_instants".into()).or_insert(0) += 1;
                                }
                            }
                        }
                    }
                }
            }
        }
        for dt in [DateTime::<Utc>::MIN_UTC, DateTime::<Utc>::MAX_UTC] {
            let r = guard(|| Timestamp::try_from(dt));
            rep.eval(1);
            match r {
                Ok(got) => {
                    let want = expected(dt.timestamp());
                    if got.map(|t| t.0) != want {
                        rep.violation("chrono:extreme", format!("{dt:?} converts to {}", show(&got)), json!({"secs": dt.timestamp(), "nanos": 0, "zone": 0}), 0);
                    }
                }
                Err(p) => rep.violation(format!("panic:{}", p.site()), p.message, json!({"secs": dt.timestamp(), "nanos": 0, "zone": 0}), 0),
            }
        }
        rep.counts(&local);
        rep.nontrivial_many(hs);
    }
    // 4. seeded random instants + ordering on sorted samples
    let nrand: u64 = ctx.tier.pick(400_000, 300_000_000) / if ctx.is_dbg() { 20 } else { 1 };
    let chunk = 2000u64;
    par_for(ctx.threads, nrand / chunk, 1, |k| {
        let mut rng = Rng::for_case(ctx.seed, "C20-random", k);
        let mut local = BTreeMap::new();
        let mut hs = Vec::new();
        let mut inst: Vec<(i64, u32)> = Vec::with_capacity(chunk as usize);
        for _ in 0..chunk {
            let secs = match rng.below(6) {
                0 => rng.below(TWO32 as u64) as i64,
                1 => -(rng.below(1 << 33) as i64),
                2 => TWO32 + rng.below(1 << 34) as i64,
                3 => rng.below(1 << 20) as i64 - (1 << 19),
                4 => TWO32 - (1 << 19) + rng.below(1 << 20) as i64,
                _ => (rng.next() >> rng.below(40)) as i64 * if rng.bool() { 1 } else { -1 },
            };
            let nanos = if rng.bool() { rng.below(1_000_000_000) as u32 } else { *rng.pick(&NANOS) };
            inst.push((secs, nanos));
            let zone = if rng.bool() { None } else { Some(if rng.bool() { *rng.pick(&ZONES) } else { rng.below(2 * 50400 + 1) as i32 - 50400 }) };
            observe(rep, &mut local, &mut hs, secs, nanos, zone);
        }
        // ordering: converting a sorted list of instants gives a non-decreasing list of timestamps
        inst.sort();
        let r = guard(|| {
            // ordering is judged through the Timestamp type's own comparison AND through its number,
            // against the first, the previous and a far-away earlier converted instant
            let mut seen: Vec<(Timestamp, (i64, u32))> = Vec::new();
            for (s, n) in &inst {
                if let Some(st) = system_time(*s, *n) {
                    if let Ok(t) = Timestamp::try_from(st) {
                        let k = seen.len();
                        for j in [0usize, k / 2, k.saturating_sub(1)] {
                            if let Some((pt, pi)) = seen.get(j) {
                                if t < *pt || t.0 < pt.0 || (t.0 == pt.0) != (t == *pt) {
                                    return Some((*pi, (*s, *n)));
                                }
                            }
                        }
                        seen.push((t, (*s, *n)));
                    }
                }
            }
            None
        });
        match r {
            Ok(None) => *local.entry("ordering_runs".into()).or_insert(0) += 1,
            Ok(Some((a, b))) => rep.violation("ordering-inverted", format!("instants {a:?} <= {b:?} convert to decreasing timestamps"), json!({"a": [a.0, a.1], "b": [b.0, b.1]}), 0),
            Err(p) => rep.violation(format!("panic:{}", p.site()), p.message, json!({"kind": "ordering"}), 0),
        }
        rep.counts(&local);
        if k < 100 {
            rep.nontrivial_many(hs);
        }
    });
    rep.eval(nrand);

    // 5. builder path: source files with extreme mtimes
    let dir = ctx.work_dir("mtimes");
    let mtimes: [i64; 10] = [-100_000, -1, 0, 1, (1 << 31) - 1, 1 << 31, TWO32 - 1, TWO32, 1 << 34, 1_600_000_000];
    for (i, m) in mtimes.iter().enumerate() {
        let p = dir.join(format!("f{i}"));
        std::fs::write(&p, b"x").unwrap();
        if !set_mtime(&p, *m) {
            rep.count("mtime_not_settable", 1);
            continue;
        }
        let actual = std::fs::metadata(&p).ok().and_then(|md| md.modified().ok());
        let actual_secs = actual.map(|t| match t.duration_since(SystemTime::UNIX_EPOCH) {
            Ok(d) => d.as_secs() as i64,
            Err(e) => -(e.duration().as_secs() as i64),
        });
        if actual_secs != Some(*m) {
            rep.count("mtime_not_representable_on_fs", 1);
            continue;
        }
        rep.eval(1);
        let r = guard(|| {
            rpm::PackageBuilder::new("t", "1", "MIT", "noarch", "s")
                .compression(rpm::CompressionType::None)
                .with_file(&p, rpm::FileOptions::new("/f"))
                // the conversion error may come from with_file() or, for a builder that reads its
                // sources late, from build()
                .and_then(|b| b.build())
                .map(|pkg| Ok::<_, rpm::Error>(pkg.metadata.get_file_entries().map(|e| e.first().map(|f| f.modified_at.0))))
        });
        let want = expected(*m);
        match r {
            Err(p) => rep.violation(format!("panic:with_file:{}", p.site()), format!("with_file panics for a source file with mtime {m}: {}", p.message), json!({"mtime": m}), 0),
            Ok(Ok(Ok(Ok(Some(t))))) => {
                if want != Ok(t) {
                    rep.violation("with_file:mtime-wrong", format!("file mtime {m} recorded as {t}"), json!({"mtime": m}), 0);
                }
                rep.count("with_file.ok", 1);
            }
            Ok(Err(rpm::Error::TimestampConv(e))) => {
                if want != Err(e) {
                    rep.violation("with_file:wrong-error", format!("file mtime {m} gives {e:?}"), json!({"mtime": m}), 0);
                }
                rep.count("with_file.timestamp_error", 1);
            }
            Ok(other) => rep.violation("with_file:unexpected", format!("file mtime {m}: unexpected result {:?}", other.map(|_| ())), json!({"mtime": m}), 0),
        }
    }
    let _ = std::fs::remove_dir_all(&dir);

    for (s, n, z) in [(-1i64, 999_999_999u32, None), (0, 0, None), (TWO32 - 1, 999_999_999, Some(50400)), (TWO32, 0, Some(-50400)), (1 << 31, 500_000_000, Some(20700))] {
        let got = match z {
            None => system_time(s, n).map(|st| show(&Timestamp::try_from(st))),
            Some(off) => DateTime::<Utc>::from_timestamp(s, n).map(|dt| show(&Timestamp::try_from(dt.with_timezone(&FixedOffset::east_opt(off).unwrap())))),
        };
        rep.sample(json!({"secs": s, "nanos": n, "zone_offset": z, "library": got, "expected": show(&expected(s).map(Timestamp))}));
    }
}

fn replay(_ctx: &Ctx, w: &serde_json::Value, rep: &Report) {
    let secs = w["secs"].as_i64().unwrap_or(0);
    let nanos = w["nanos"].as_u64().unwrap_or(0) as u32;
    let zone = w["zone"].as_i64().map(|z| z as i32);
    let r = guard(|| judge(secs, nanos, zone));
    println!("monitor: instant {secs}s+{nanos}ns zone {zone:?} -> {:?}", r.as_ref().map_err(|p| p.message.clone()));
    match r {
        Ok(Err((k, what))) => rep.violation(k, what, w.clone(), 0),
        Err(p) => rep.violation(format!("panic:{}", p.site()), p.message, w.clone(), 0),
        _ => {}
    }
}
