//! C10 — after any signing history a package verifies with exactly the last signer's key.

use super::CheckDef;
use crate::gen::build::*;
use crate::model::codec::*;
use crate::util::par::{guard, par_for};
use crate::util::report::{Ctx, Meta, Report};
use crate::util::rng::Rng;
use pgp::types::PublicKeyTrait;
use pgp::Deserializable;
use rpm::Package;
use serde_json::json;
use std::collections::BTreeMap;

pub fn def() -> CheckDef {
    CheckDef { id: "C10", run, meta, dbg: false, replay: Some(replay) }
}

fn meta(ctx: &Ctx) -> Meta {
    Meta {
        level: "exploration",
        rule: format!(
            "operation histories over {{sign with RSA-4096, protected RSA-3072, Ed25519, ECDSA-P256 (random histories also RSA-2048 and a key pair generated at run time: Ed25519 primary and its Ed25519 signing SUBKEY, which must verify with that key and report the subkey's id); clear signatures; write + re-parse (from a slice or through BufReaders of capacity 1 / 3 / 8 / 16 / 96 / 4096); a FAILING signing attempt (protected key without passphrase), which must leave the package unchanged}}; signing times drawn per (history, step) from {{a fixed past instant, 0, now, now + 400 days, 2100-01-01, u32::MAX}}: ALL sequences up to length {} from built packages with and without files, seeded random histories up to length {} from further built packages and from the six asset packages (unsigned, RSA-signed, IMA-signed, source rpm). After EVERY step a 3-line sequential model (last signer since the last clear) is compared with: verify_signature under each of the four public keys (must succeed exactly for the last signer), signature_key_ids() (exactly that key's id, derived independently with the pgp crate), verify_digests(), and byte identity of header+payload with the starting package. distinct_nontrivial = distinct (start, history prefix) states checked",
            ctx.tier.pick(3, 4),
            ctx.tier.pick(8, 12)
        ),
        assumptions: vec!["test keys of the repository; pgp crate for key ids and verification".into()],
        floor_distinct: 100,
    }
}

#[derive(Clone, Copy, PartialEq, Eq, Debug)]
enum Op {
    Sign(usize),
    Clear,
    Reparse,
    /// a signing attempt that fails (passphrase-protected key without its passphrase): must return
    /// an error and leave the package as it was
    FailSign,
    /// sign with the signing SUBKEY of the generated key pair (keys[GEN] is its primary key)
    SignSub,
}

fn op_name(o: Op, keys: &[Key]) -> String {
    match o {
        Op::Sign(k) => format!("sign({})", keys[k].name),
        Op::Clear => "clear".into(),
        Op::Reparse => "write+parse".into(),
        Op::FailSign => "failed-sign(protected key without passphrase)".into(),
        Op::SignSub => "sign(subkey of generated-ed25519)".into(),
    }
}

#[derive(Clone, Copy, PartialEq, Eq, Debug)]
enum Last {
    None,
    Foreign,
    Key(usize),
    /// signed by the subkey of keys[i]: verifies with keys[i], reports the SUBKEY's id
    Sub(usize),
}

fn key_id_hex(k: &Key) -> String {
    let s = String::from_utf8_lossy(&k.public_asc).to_string();
    let (pk, _) = pgp::SignedPublicKey::from_string(&s).expect("public key parses");
    hex::encode(pk.key_id().as_ref())
}

fn header_payload(pkg: &Package) -> Result<Vec<u8>, String> {
    let bytes = pkg_bytes(pkg).map_err(|e| e.to_string())?;
    let p = walk_package(&bytes)?;
    Ok(bytes[p.hdr.start..].to_vec())
}

/// check the state after a step against the model; returns violations
fn check_state(pkg: &Package, last: Last, keys: &[Key], key_ids: &[String], sub_id: Option<&String>, start_hp: &[u8], after: &str) -> Vec<(String, String)> {
    let mut v = Vec::new();
    for (i, k) in keys.iter().enumerate() {
        let ok = pkg.verify_signature(&k.verifier);
        let should = last == Last::Key(i) || last == Last::Sub(i);
        match (should, &ok) {
            (true, Err(e)) => v.push((format!("last-signer-does-not-verify:{}:after-{after}", k.name), format!("the package was last signed with {} but does not verify with it: {e}", k.name))),
            (false, Ok(())) => v.push((format!("other-key-verifies:{}:after-{after}", k.name), format!("the package verifies with {} although the last signer is {:?}", k.name, last))),
            _ => {}
        }
    }
    let ids = pkg.signature_key_ids();
    match last {
        Last::Key(i) => match &ids {
            Ok(list) if list.len() == 1 && list[0].eq_ignore_ascii_case(&key_ids[i]) => {}
            Ok(list) => v.push((format!("key-ids-wrong:after-{after}"), format!("signature_key_ids() = {list:?}, expected [{}] ({})", key_ids[i], keys[i].name))),
            Err(e) => v.push((format!("key-ids-error:after-{after}"), format!("signature_key_ids() fails on a package signed with {}: {e}", keys[i].name))),
        },
        Last::Sub(i) => match (&ids, sub_id) {
            (Ok(list), Some(sid)) if list.len() == 1 && list[0].eq_ignore_ascii_case(sid) => {}
            (Ok(list), sid) => v.push((format!("key-ids-wrong:subkey:after-{after}"), format!("signature_key_ids() = {list:?}, expected the signing subkey {sid:?} of {}", keys[i].name))),
            (Err(e), _) => v.push((format!("key-ids-error:subkey:after-{after}"), format!("signature_key_ids() fails on a package signed with the subkey of {}: {e}", keys[i].name))),
        },
        Last::None => {
            if let Ok(list) = &ids {
                if !list.is_empty() {
                    v.push((format!("key-ids-on-unsigned:after-{after}"), format!("signature_key_ids() = {list:?} on a package without signature")));
                }
            }
        }
        Last::Foreign => {}
    }
    if let Err(e) = pkg.verify_digests() {
        v.push((format!("digests-broken:after-{after}"), format!("verify_digests fails: {e}")));
    }
    match header_payload(pkg) {
        Ok(hp) => {
            if hp != start_hp {
                v.push((format!("header-or-payload-changed:after-{after}"), "main header + payload bytes differ from the starting package".to_string()));
            }
        }
        Err(e) => v.push((format!("unwritable:after-{after}"), format!("the package cannot be written / walked: {e}"))),
    }
    v
}

fn run_history(start: &Package, start_last: Last, hist: &[Op], keys: &[Key], key_ids: &[String], bad_signer: Option<&rpm::signature::pgp::Signer>, sub: Option<&(usize, rpm::signature::pgp::Signer<pgp::SignedSecretSubKey>, String)>) -> Result<(Vec<(String, String, usize)>, usize), String> {
    let start_hp = header_payload(start)?;
    let mut pkg = start.clone();
    let mut last = start_last;
    let mut out = Vec::new();
    let mut states = 0;
    // the starting package itself is a state: none of the harness's keys signed it
    for (k, w) in check_state(&pkg, last, keys, key_ids, sub.map(|s| &s.2), &start_hp, "start") {
        out.push((k, w, 0));
    }
    for (step, op) in hist.iter().enumerate() {
        let after = match op {
            Op::Sign(_) => "sign",
            Op::Clear => "clear",
            Op::Reparse => "reparse",
            Op::FailSign => "failed-sign",
            Op::SignSub => "sign-with-subkey",
        };
        match op {
            Op::Sign(k) => {
                // signing times: mostly a fixed past instant, but also the epoch, the current time,
                // instants in the future of this host's clock and the last representable second
                let h = hist.iter().fold(step as u64 + 1, |a, o| a.wrapping_mul(0x100000001b3).wrapping_add(match o { Op::Sign(k) => 10 + *k as u64, Op::Clear => 1, Op::Reparse => 2, Op::FailSign => 3, Op::SignSub => 4 }));
                let now = std::time::SystemTime::now().duration_since(std::time::UNIX_EPOCH).map(|d| d.as_secs() as u32).unwrap_or(1_700_000_000);
                // a third of the histories sign every time at ONE fixed instant (two signers, same second)
                let hh = hist.iter().fold(7u64, |a, o| a.wrapping_mul(0x100000001b3).wrapping_add(match o { Op::Sign(k) => 10 + *k as u64, Op::Clear => 1, Op::Reparse => 2, Op::FailSign => 3, Op::SignSub => 4 }));
                match if hh % 3 == 0 { 9 } else { (h >> 7) % 10 } {
                    9 => pkg.sign_with_timestamp(&keys[*k].signer, 1_600_000_000u32),
                    0 => pkg.sign_with_timestamp(&keys[*k].signer, 0u32),
                    1 => pkg.sign_with_timestamp(&keys[*k].signer, now.saturating_add(400 * 86_400)),
                    2 => pkg.sign_with_timestamp(&keys[*k].signer, 4_102_444_800u32),
                    3 => pkg.sign_with_timestamp(&keys[*k].signer, u32::MAX),
                    4 => pkg.sign(&keys[*k].signer),
                    _ => pkg.sign_with_timestamp(&keys[*k].signer, 1_600_000_000u32 + step as u32),
                }
                .map_err(|e| format!("sign fails: {e}"))?;
                last = Last::Key(*k);
            }
            Op::Clear => {
                pkg.clear_signatures().map_err(|e| format!("clear_signatures fails: {e}"))?;
                last = Last::None;
            }
            Op::Reparse => {
                // written into a Vec, or into a writer that implements write()/flush() only and takes a
                // few bytes per call
                let b = if (hist.len() + step) % 2 == 0 {
                    pkg_bytes(&pkg).map_err(|e| format!("write fails: {e}"))?
                } else {
                    let mut w = crate::util::PlainWriter { out: Vec::new(), max: [1usize, 5, 64, 4096][(hist.len() * 3 + step) % 4] };
                    pkg.write(&mut w).map_err(|e| format!("write into a plain writer fails: {e}"))?;
                    w.out
                };
                // through a slice, or through buffered readers whose buffer runs dry at every kind of
                // position (capacity 1: at every byte; 8 / 16 / 96: at the segment boundaries)
                let caps = [0usize, 1, 3, 8, 16, 96, 4096];
                let cap = caps[(hist.len() * 7 + step * 3 + b.len()) % caps.len()];
                pkg = if cap == 0 { Package::parse(&mut &b[..]) } else { Package::parse(&mut std::io::BufReader::with_capacity(cap, &b[..])) }.map_err(|e| format!("re-parse (reader capacity {cap}) fails: {e}"))?;
            }
            Op::SignSub => {
                let Some((gi, signer, _)) = sub else { continue };
                pkg.sign_with_timestamp(signer, 1_600_000_000u32 + step as u32).map_err(|e| format!("sign with subkey fails: {e}"))?;
                last = Last::Sub(*gi);
            }
            Op::FailSign => {
                let Some(bad) = bad_signer else { continue };
                if pkg.sign_with_timestamp(bad, 1_600_000_000u32).is_ok() {
                    out.push(("failing-sign-succeeds".to_string(), "signing with the protected key and no passphrase succeeds".to_string(), step));
                    last = Last::Foreign;
                }
            }
        }
        states += 1;
        for (k, w) in check_state(&pkg, last, keys, key_ids, sub.map(|s| &s.2), &start_hp, after) {
            out.push((k, w, step));
        }
    }
    Ok((out, states))
}

fn all_sequences(ops: &[Op], maxlen: usize) -> Vec<Vec<Op>> {
    let mut out = Vec::new();
    let mut frontier: Vec<Vec<Op>> = vec![vec![]];
    for _ in 0..maxlen {
        let mut next = Vec::new();
        for s in &frontier {
            for o in ops {
                let mut t = s.clone();
                t.push(*o);
                next.push(t);
            }
        }
        out.extend(next.iter().cloned());
        frontier = next;
    }
    out
}

fn initial_last(pkg: &Package) -> Last {
    let bytes = pkg_bytes(pkg).unwrap_or_default();
    match walk_package(&bytes) {
        Ok(p) => {
            if [tag::SIG_OPENPGP, tag::SIG_RSA, tag::SIG_DSA, tag::SIG_PGP, 1005].iter().any(|t| p.sig.find(*t).is_some()) {
                Last::Foreign
            } else {
                Last::None
            }
        }
        Err(_) => Last::Foreign,
    }
}

fn run(ctx: &Ctx, rep: &Report) {
    let keys = match load_keys(&ctx.repo_dir) {
        Ok(k) => k,
        Err(e) => {
            rep.inconclusive(format!("cannot load test keys: {e}"));
            return;
        }
    };
    // a sixth key pair generated now: Ed25519 primary + Ed25519 signing subkey
    let mut keys = keys;
    let sub = match generate_key_with_signing_subkey() {
        Ok(sk) => {
            keys.push(sk.primary);
            Some((keys.len() - 1, sk.sub_signer, sk.sub_id))
        }
        Err(e) => {
            rep.note(format!("could not generate a key with a signing subkey ({e}): subkey operations skipped"));
            None
        }
    };
    let keys = keys;
    let key_ids: Vec<String> = keys.iter().map(key_id_hex).collect();
    rep.note(format!("key ids derived with the pgp crate: {:?}", keys.iter().map(|k| k.name).zip(key_ids.iter()).collect::<Vec<_>>()));
    // the exhaustive alphabet uses the four keys the property names; the fifth (RSA-2048) joins the random histories
    let ops: Vec<Op> = vec![Op::Sign(0), Op::Sign(1), Op::Sign(2), Op::Sign(3), Op::Clear, Op::Reparse, Op::FailSign];
    // the protected key loaded WITHOUT its passphrase: every signing attempt with it fails
    let bad_signer = std::fs::read(ctx.asset("tests/assets/signing_keys/secret_rsa3072_protected.asc")).ok().and_then(|b| rpm::signature::pgp::Signer::load_from_asc_bytes(&b).ok());
    if bad_signer.is_none() {
        rep.note("protected key not loadable: failing-sign operation skipped");
    }
    // starting packages
    let dir = ctx.work_dir("starts");
    let mut starts: Vec<(String, Package, Last)> = Vec::new();
    let mut cfg = BuildCfg { name: "hist".into(), version: "1.0".into(), license: "MIT".into(), arch: "noarch".into(), summary: "history".into(), compression: Some(("gzip".into(), 6)), source_date: Some(1_600_000_000), ..Default::default() };
    if let Ok(p) = build(&cfg, &dir) {
        starts.push(("built-no-files".into(), p, Last::None));
    }
    cfg.files.push(FileCfg { dest: "/usr/share/hist/data".into(), content_kind: "noise".into(), size: 5000, content_seed: 3, mode: Some(0o100644), source_perm: 0o644, user: None, group: None, flags: vec![], caps: None, symlink: None, mtime: 1_500_000_000, verify: None });
    cfg.compression = Some(("zstd".into(), 3));
    if let Ok(p) = build(&cfg, &dir) {
        starts.push(("built-with-file".into(), p, Last::None));
    }
    let n_exhaustive = starts.len();
    // a main header far above 8 KiB, and one above 16 MiB (rpm itself takes up to 256 MiB)
    for (label, len) in [("built-header-40KiB", 40_000usize), ("built-header-17MiB", 17 << 20)] {
        let mut c = BuildCfg { name: "bighdr".into(), version: "1.0".into(), license: "MIT".into(), arch: "noarch".into(), summary: "big header".into(), compression: Some(("none".into(), 0)), source_date: Some(1_600_000_000), ..Default::default() };
        c.description = Some("long description line\n".repeat(len / 22));
        if let Ok(p) = build(&c, &dir) {
            starts.push((label.into(), p, Last::None));
        }
    }
    for i in 0..ctx.tier.pick(4, 40) {
        let mut r = Rng::for_case(ctx.seed, "C10-start", i);
        let c = gen_cfg(&mut r, &GenOpts { max_files: 3, all_levels: false, ..Default::default() });
        if let Ok(p) = build(&c, &dir) {
            starts.push((format!("built-random-{i}"), p, Last::None));
        }
    }
    for rel in ASSETS {
        if let Ok(b) = std::fs::read(ctx.asset(rel)) {
            if let Ok(p) = Package::parse(&mut &b[..]) {
                let l = initial_last(&p);
                starts.push((format!("asset:{rel}"), p, l));
            }
        }
    }
    let _ = std::fs::remove_dir_all(&dir);
    if n_exhaustive < 2 {
        rep.inconclusive("could not build the starting packages");
        return;
    }
    // job list: (start index, history)
    let mut jobs: Vec<(usize, Vec<Op>)> = Vec::new();
    let seqs = all_sequences(&ops, ctx.tier.pick(3, 4));
    rep.count("exhaustive_sequences_per_start", seqs.len() as u64);
    for s in 0..n_exhaustive {
        for h in &seqs {
            jobs.push((s, h.clone()));
        }
    }
    if let Some((gi, _, _)) = &sub {
        // the generated key: its primary and its signing subkey in short histories with the others
        let g = *gi;
        let with_sub: Vec<Vec<Op>> = vec![
            vec![Op::SignSub],
            vec![Op::SignSub, Op::Reparse],
            vec![Op::SignSub, Op::Clear],
            vec![Op::SignSub, Op::Sign(g)],
            vec![Op::Sign(g), Op::SignSub],
            vec![Op::Sign(g), Op::Reparse, Op::SignSub, Op::Reparse],
            vec![Op::Sign(2), Op::SignSub],
            vec![Op::SignSub, Op::Sign(2), Op::Reparse],
            vec![Op::SignSub, Op::Sign(0)],
            vec![Op::Sign(3), Op::Clear, Op::SignSub, Op::FailSign],
            vec![Op::SignSub, Op::SignSub, Op::Reparse, Op::Clear, Op::Sign(g)],
        ];
        for s in 0..starts.len() {
            for h in &with_sub {
                jobs.push((s, h.clone()));
            }
        }
    }
    // every start (the foreign packages in particular) with each single operation and a few pairs
    for s in 0..starts.len() {
        for h in [vec![Op::Clear], vec![Op::Reparse], vec![Op::FailSign], vec![Op::Sign(2)], vec![Op::Clear, Op::Reparse], vec![Op::Clear, Op::Sign(3), Op::Reparse], vec![Op::Reparse, Op::Clear], vec![Op::Sign(3), Op::Clear]] {
            jobs.push((s, h));
        }
    }
    if ctx.tier.pick(false, true) {
        // one level deeper on the smallest start
        for h in all_sequences(&ops, 5).into_iter().filter(|h| h.len() == 5) {
            jobs.push((0, h));
        }
    }
    let maxlen = ctx.tier.pick(8, 12);
    for s in n_exhaustive..starts.len() {
        for j in 0..ctx.tier.pick(3, 40) {
            let mut r = Rng::for_case(ctx.seed, "C10-hist", (s * 1000 + j) as u64);
            let len = 1 + r.usize(maxlen);
            // cheap keys preferred in random histories (protected RSA-3072 signing costs 270 ms)
            let gen_ops = if let Some((g, _, _)) = &sub { [Op::SignSub, Op::Sign(*g)] } else { [Op::Sign(2), Op::Sign(3)] };
            let h: Vec<Op> = (0..len).map(|_| [Op::Sign(2), Op::Sign(3), Op::Sign(0), Op::Sign(4), Op::Sign(3), Op::Sign(1), Op::Clear, Op::Reparse, Op::Reparse, Op::FailSign, gen_ops[0], gen_ops[1]][r.usize(12)]).collect();
            jobs.push((s, h));
        }
    }
    rep.count("histories", jobs.len() as u64);
    par_for(ctx.threads, jobs.len() as u64, 1, |j| {
        let (s, hist) = &jobs[j as usize];
        let (label, start, last0) = &starts[*s];
        let names: Vec<String> = hist.iter().map(|o| op_name(*o, &keys)).collect();
        let w = |step: usize| json!({"start": label, "history": names, "failing_step": step});
        let mut local: BTreeMap<String, u64> = BTreeMap::new();
        match guard(|| run_history(start, *last0, hist, &keys, &key_ids, bad_signer.as_ref(), sub.as_ref())) {
            Ok(Ok((vs, states))) => {
                rep.eval(states as u64);
                *local.entry("states_checked".into()).or_insert(0) += states as u64;
                *local.entry("verifications".into()).or_insert(0) += states as u64 * keys.len() as u64;
                for st in 0..states {
                    rep.nontrivial(crate::util::rng::hash_str(&format!("{label}|{}", names[..=st].join(","))));
                }
                for (k, what, step) in vs {
                    rep.violation(k, format!("[{label}] after {}: {what}", names[..=step].join(" -> ")), w(step), (step + 1) as u64);
                }
            }
            Ok(Err(e)) => rep.violation(format!("operation-fails:{}", crate::util::par::normalize_msg(&e)), format!("[{label}] {}: {e}", names.join(" -> ")), w(0), hist.len() as u64),
            Err(p) => rep.violation(format!("panic:{}", p.site()), format!("[{label}] {}: {}", names.join(" -> "), p.message), w(0), hist.len() as u64),
        }
        rep.counts(&local);
        if j < 3 {
            rep.sample(json!({"start": label, "history": names}));
        }
    });
}

fn replay(ctx: &Ctx, w: &serde_json::Value, _rep: &Report) {
    println!("history witness: start={} history={} failing step={}", w["start"], w["history"], w["failing_step"]);
    println!("(re-run `bin/check {} quick` — histories are enumerated deterministically)", ctx.id);
}
