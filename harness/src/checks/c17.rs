//! C17 — the builder rejects bad arguments with errors, not panics.

use super::CheckDef;
use crate::model::cpio as mcpio;
use crate::util::par::{guard, par_for};
use crate::util::report::{Ctx, Meta, Report};
use crate::util::rng::{hash_str, Rng};
use rpm::{CompressionWithLevel, FileMode, FileOptions, PackageBuilder};
use serde_json::json;
use std::collections::BTreeMap;
use std::path::Path;

pub fn def() -> CheckDef {
    CheckDef { id: "C17", run, meta, dbg: true, replay: Some(replay) }
}

const TOKENS: [&str; 5] = ["/", ".", "..", "a", "bc"];

fn max_tokens(ctx: &Ctx) -> u32 {
    match (ctx.is_dbg(), ctx.tier.pick(0, 1)) {
        (false, 0) => 6,
        (false, _) => 9,
        (true, 0) => 5,
        (true, _) => 8,
    }
}

fn meta(ctx: &Ctx) -> Meta {
    Meta {
        level: "exploration",
        rule: format!(
            "bounded-exhaustive destinations: every string of up to {} tokens over {:?} (release; one token fewer in verifdbg) is given to with_file + build: no panic, and a destination that does not start with '/' or './' or has no file name (component list empty or ending in '..') must be an error; capability strings (all strings up to 5 tokens of C19's alphabet; 3 in verifdbg) through FileOptions::caps + build: no panic, InvalidCapabilities as the error kind, and text that C19's grammar model rejects must not be accepted; every compression type with levels 0..=25, 100, 2^31, u32::MAX (zstd: i32::MIN, -200..=30, i32::MAX) then build() with a small file - if Ok the payload must decompress independently and contain the file; metadata setters with NUL / newline / 64 KiB / odd strings, extreme epochs and modes, missing and directory sources. Release and verifdbg. Building with each compression type is repeated in builds of the library with three other cargo feature sets (none, gzip only, default): an error is fine, a panic is not. Destination sets: all ordered pairs of 19 related paths and all triples of 14, incl. one directory under several spellings (/a/b, /./a/y, ././a/z, /a/./b/h, //a/k, /a/b/../b/m). distinct_nontrivial = distinct argument tuples executed",
            max_tokens(ctx),
            TOKENS
        ),
        assumptions: vec!["destination model is independent of std::path: split on '/', drop empty and '.' components".into()],
        floor_distinct: 1000,
    }
}

#[derive(PartialEq, Debug, Clone, Copy)]
enum DestExp {
    MustErr(&'static str),
    Free,
}

fn dest_model(d: &str) -> DestExp {
    if !(d.starts_with('/') || d.starts_with("./")) {
        return DestExp::MustErr("does-not-start-with-slash-or-dot-slash");
    }
    let comps: Vec<&str> = d.split('/').filter(|c| !c.is_empty() && *c != ".").collect();
    match comps.last() {
        None => DestExp::MustErr("no-component-left"),
        Some(&"..") => DestExp::MustErr("ends-in-dotdot"),
        _ => DestExp::Free,
    }
}

fn nth(mut idx: u64, len: u32) -> String {
    let mut s = String::new();
    for _ in 0..len {
        s.push_str(TOKENS[(idx % 5) as usize]);
        idx /= 5;
    }
    s
}

fn new_builder() -> PackageBuilder {
    PackageBuilder::new("c17", "1.0", "MIT", "noarch", "summary").compression(rpm::CompressionType::None)
}

fn judge_dest(src: &Path, d: &str) -> Option<(String, String)> {
    let exp = dest_model(d);
    let r = guard(|| new_builder().with_file(src, FileOptions::new(d)).map(|b| b.build().map(|_| ())));
    match (r, exp) {
        (Err(p), _) => Some((format!("panic:destination:{}", p.site()), format!("destination {d:?} makes the builder panic: {}", p.message))),
        (Ok(Ok(Ok(()))), DestExp::MustErr(why)) => Some((format!("accepts-destination-without-file-name:{why}"), format!("destination {d:?} ({why}) is accepted"))),
        _ => None,
    }
}

fn level_cases() -> Vec<CompressionWithLevel> {
    let mut v = vec![CompressionWithLevel::None];
    let mut lv: Vec<u32> = (0..=25).collect();
    lv.extend([100, 1 << 31, u32::MAX]);
    for l in &lv {
        v.push(CompressionWithLevel::Gzip(*l));
        v.push(CompressionWithLevel::Xz(*l));
        v.push(CompressionWithLevel::Bzip2(*l));
    }
    let mut zl: Vec<i32> = (-200..=30).collect();
    zl.extend([i32::MIN, i32::MIN + 1, -100_000, 100, 1000, i32::MAX]);
    for l in zl {
        v.push(CompressionWithLevel::Zstd(l));
    }
    v
}

fn judge_level(src: &Path, content: &[u8], c: CompressionWithLevel) -> (Option<(String, String)>, &'static str) {
    let r = guard(|| PackageBuilder::new("c17", "1.0", "MIT", "noarch", "summary").compression(c).with_file(src, FileOptions::new("/usr/share/c17/file")).and_then(|b| b.build()));
    let fam = format!("{c:?}").split('(').next().unwrap_or("").to_string();
    match r {
        Err(p) => (Some((format!("panic:compression-level:{fam}:{}", p.site()), format!("compression {c:?} makes build() panic: {}", p.message))), "panic"),
        Ok(Err(_)) => (None, "err"),
        Ok(Ok(pkg)) => {
            // "mapped to a supported level": the result must be a usable package
            let comp = pkg.metadata.get_payload_compressor().ok().map(|c| c.to_string());
            let name = comp.as_deref().filter(|c| *c != "none");
            match mcpio::decompress(name, &pkg.content) {
                Err(e) => (Some((format!("unusable-payload:{fam}"), format!("build() with {c:?} succeeds but the payload does not decompress: {e}"))), "ok"),
                Ok(a) => {
                    if a.windows(content.len()).any(|w| w == content) {
                        (None, "ok")
                    } else {
                        (Some((format!("payload-without-content:{fam}"), format!("build() with {c:?} succeeds but the file content is not in the payload"))), "ok")
                    }
                }
            }
        }
    }
}

fn odd_strings() -> Vec<String> {
    let mut v = odd_strings_base();
    // multi-byte characters straddling every byte position around the fixed-size fields of the lead
    // (66-byte name) and other small powers of two
    for boundary in [16usize, 32, 64, 65, 66, 128, 255, 256] {
        for back in 0..4usize {
            for ch in ["é", "語", "🦀"] {
                let mut s = "n".repeat(boundary.saturating_sub(back));
                s.push_str(ch);
                s.push_str("tail");
                v.push(s);
            }
        }
    }
    v
}

fn odd_strings_base() -> Vec<String> {
    vec![
        String::new(),
        "\0".into(),
        "a\0b".into(),
        "line1\nline2".into(),
        "\r\n".into(),
        "x".repeat(65536),
        "ü".repeat(40000),
        "\u{feff}bom".into(),
        "%{name}-%{version}".into(),
        "../../etc/passwd".into(),
        " ".into(),
        "\u{202e}rtl".into(),
        "-".into(),
        "a-b-c:1".into(),
        "#! \necho".into(),
        "#!\t\n".into(),
        "#!  ".into(),
        "#!".into(),
        "#!\n".into(),
        "ends in a line feed\n".into(),
    ]
}

fn run(ctx: &Ctx, rep: &Report) {
    let dir = ctx.work_dir("src");
    let src = dir.join("source-file");
    let content = b"c17 file content: 0123456789 abcdefghijklmnopqrstuvwxyz".to_vec();
    std::fs::write(&src, &content).unwrap();
    // 1. destinations
    let maxt = max_tokens(ctx);
    for len in 0..=maxt {
        let total = 5u64.pow(len);
        let chunk = 512u64;
        par_for(ctx.threads, total.div_ceil(chunk), 1, |c| {
            let mut local: BTreeMap<String, u64> = BTreeMap::new();
            let mut hs = Vec::new();
            for idx in c * chunk..((c + 1) * chunk).min(total) {
                let d = nth(idx, len);
                *local.entry(format!("destinations.model-{}", if dest_model(&d) == DestExp::Free { "free" } else { "must-be-error" })).or_insert(0) += 1;
                hs.push(hash_str(&d));
                if let Some((k, what)) = judge_dest(&src, &d) {
                    rep.violation(k, what, json!({"kind": "destination", "destination": d}), d.len() as u64);
                }
            }
            rep.counts(&local);
            rep.nontrivial_many(hs);
        });
        rep.eval(total);
    }
    rep.set_exhaustive(true);
    // a few longer / odd destinations
    let mut rng = Rng::for_case(ctx.seed, "C17-dest", 0);
    let extra: u64 = ctx.tier.pick(5000, 1_000_000);
    let mut extras: Vec<String> = vec!["/".into(), "./".into(), "".into(), "/\0".into(), "/a\0/b".into(), "//".into(), "/./".into(), "./.".into(), "./..".into(), "/..".into(), "/usr/..".into(), "C:\\x".into(), "~".into(), "/ü/é".into(), "/a/".into(), "./a/".into()];
    for _ in 0..extra {
        let n = rng.usize(12);
        let mut s = String::new();
        for _ in 0..n {
            s.push_str(["/", ".", "..", "a", "bc", "//", "./", "ü", " ", "\0", "~"][rng.usize(11)]);
        }
        extras.push(s);
    }
    par_for(ctx.threads, extras.len() as u64, 64, |i| {
        let d = &extras[i as usize];
        rep.nontrivial(hash_str(d) ^ 1);
        if let Some((k, what)) = judge_dest(&src, d) {
            rep.violation(k, what, json!({"kind": "destination", "destination": d}), d.len() as u64);
        }
    });
    rep.eval(extras.len() as u64);
    rep.count("destinations.random_or_odd", extras.len() as u64);
    // 1b. SETS of destinations: every ordered pair and triple over a small family of related paths
    // (siblings, parent/child directories, a file where another destination needs a directory, both
    // spellings): with_file x n + build must return, never panic
    {
        // the last five name directories of the first ones under another spelling ('.' components,
        // doubled separators, a '..' that comes back): two files of one directory given in a row under
        // two spellings (seeded change C17-s)
        let fam = ["/a", "/a/b", "/a/b/c", "/a/d", "/a/b/d", "/b", "/a/b/c/e", "./a/f", "/a.d/x", "/a/b.c", "./b/x", "/a//g", "/c/", "/zz/y/x/w", "/./a/y", "././a/z", "/a/./b/h", "//a/k", "/a/b/../b/m"];
        let n = fam.len();
        let tri: Vec<usize> = (0..9).chain(14..n).collect();
        let mut sets: Vec<Vec<&str>> = Vec::new();
        for i in 0..n {
            for j in 0..n {
                sets.push(vec![fam[i], fam[j]]);
            }
        }
        for &i in &tri {
            for &j in &tri {
                for &k in &tri {
                    sets.push(vec![fam[i], fam[j], fam[k]]);
                }
            }
        }
        par_for(ctx.threads, sets.len() as u64, 16, |i| {
            let set = &sets[i as usize];
            rep.nontrivial(hash_str(&set.join("|")) ^ 3);
            let r = guard(|| {
                let mut b = new_builder();
                for d in set {
                    b = match b.with_file(&src, FileOptions::new(*d)) {
                        Ok(b) => b,
                        Err(_) => return,
                    };
                }
                let _ = b.build().map(|p| {
                    let mut v = Vec::new();
                    p.write(&mut v).map(|_| v.len())
                });
            });
            if let Err(p) = r {
                rep.violation(format!("panic:destination-set:{}", p.site()), format!("the destinations {set:?} make the builder panic: {}", p.message), json!({"kind": "destination-set", "destinations": set}), set.len() as u64);
            }
        });
        rep.eval(sets.len() as u64);
        rep.count("destination_sets", sets.len() as u64);
    }
    // 1c. scriptlets with every shape of interpreter vector, through all nine scriptlet setters
    {
        let progs: Vec<Vec<String>> = vec![vec![], vec![String::new()], vec!["/bin/sh".into()], vec!["/bin/sh -e".into()], vec!["a b c".into()], vec![" ".into()], vec!["/usr/bin/lua".into(), "-x".into()], vec!["".into(), "".into()], (0..40).map(|i| format!("arg{i}")).collect()];
        for (pi, prog) in progs.iter().enumerate() {
            for which in 0..9usize {
                rep.eval(1);
                rep.nontrivial(hash_str(&format!("prog|{pi}|{which}")));
                let r = guard(|| {
                    let sc = rpm::Scriptlet::new("echo hello").flags(rpm::ScriptletFlags::from_bits_retain(if pi % 2 == 0 { 0 } else { 3 })).prog(prog.clone());
                    let b = new_builder();
                    let b = match which {
                        0 => b.pre_install_script(sc),
                        1 => b.post_install_script(sc),
                        2 => b.pre_uninstall_script(sc),
                        3 => b.post_uninstall_script(sc),
                        4 => b.pre_trans_script(sc),
                        5 => b.post_trans_script(sc),
                        6 => b.pre_untrans_script(sc),
                        7 => b.post_untrans_script(sc),
                        _ => b.verify_script(sc),
                    };
                    b.build().map(|p| {
                        let mut v = Vec::new();
                        p.write(&mut v).map(|_| v.len())
                    })
                });
                if let Err(p) = r {
                    rep.violation(format!("panic:scriptlet-prog:{}", p.site()), format!("a scriptlet with the interpreter vector {prog:?} makes the builder panic: {}", p.message), json!({"kind": "scriptlet-prog", "prog": prog, "setter": which}), prog.len() as u64);
                }
            }
        }
        rep.count("scriptlet_interpreter_shapes", (progs.len() * 9) as u64);
    }
    // 1d. capability texts with very long name-list elements (no separator for 30-200 bytes)
    {
        let mut texts: Vec<String> = Vec::new();
        for n in [30usize, 31, 32, 33, 34, 40, 63, 64, 65, 128, 200, 5000] {
            texts.push(format!("{}=e", "a".repeat(n)));
            texts.push(format!("cap_{}+p", "x".repeat(n)));
            texts.push(format!("cap_chown,{}=e", "Z".repeat(n)));
            texts.push(format!("{}=e", "é".repeat(n / 2)));
        }
        texts.push("cap_net_admincap_net_rawcap_chown+p".into());
        texts.push("cap_checkpoint_restorecap_checkpoint_restore=eip".into());
        for s in &texts {
            rep.eval(1);
            rep.nontrivial(hash_str(s) ^ 9);
            let r = guard(|| FileOptions::new("/usr/bin/x").caps(s.clone()).map(|o| new_builder().with_file(&src, o).map(|b| b.build().map(|_| ()))));
            match r {
                Err(p) => rep.violation(format!("panic:caps:{}", p.site()), format!("capability text {:?}… makes the builder panic: {}", s.chars().take(48).collect::<String>(), p.message), json!({"kind": "caps", "text": s}), s.len() as u64),
                Ok(Ok(_)) => rep.violation("caps:accepted-malformed:long-unknown-name".to_string(), format!("capability text with an unknown {}-byte name is accepted", s.len()), json!({"kind": "caps", "text": s}), s.len() as u64),
                Ok(Err(_)) => {}
            }
        }
        rep.count("long_capability_names", texts.len() as u64);
    }
    // 2. capability strings through FileOptions::caps
    let ctoks = ["cap_chown", "CAP_SYSLOG", "all", "cap_bogus", ",", "=", "+", "-", "e", "i", "p", "x", " "];
    let clen = if ctx.is_dbg() { 3 } else { 5 };
    for len in 0..=clen {
        let total = 13u64.pow(len);
        par_for(ctx.threads, total.div_ceil(1024), 1, |c| {
            for mut idx in c * 1024..((c + 1) * 1024).min(total) {
                let mut s = String::new();
                for _ in 0..len {
                    s.push_str(ctoks[(idx % 13) as usize]);
                    idx /= 13;
                }
                let r = guard(|| FileOptions::new("/usr/bin/x").caps(s.clone()).map(|o| new_builder().with_file(&src, o).map(|b| b.build().map(|_| ()))));
                match r {
                    Err(p) => rep.violation(format!("panic:caps:{}", p.site()), format!("capability text {s:?} makes the builder panic: {}", p.message), json!({"kind": "caps", "text": s}), s.len() as u64),
                    Ok(Err(e)) => {
                        if !matches!(e, rpm::Error::InvalidCapabilities { .. }) {
                            rep.violation("caps:wrong-error-kind", format!("capability text {s:?} is rejected with {e:?} instead of InvalidCapabilities"), json!({"kind": "caps", "text": s}), s.len() as u64);
                        }
                    }
                    Ok(Ok(_)) => {
                        // text outside the grammar (unknown names, malformed clauses) must have been an error
                        if let (crate::model::caps::Verdict::Reject, why) = crate::model::caps::judge_reason(&s) {
                            rep.violation(format!("caps:accepted-malformed:{why}"), format!("capability text {s:?} is outside the grammar ({why}) but FileOptions::caps and build() accept it"), json!({"kind": "caps", "text": s}), s.len() as u64);
                        }
                    }
                }
            }
        });
        rep.eval(total);
        rep.count("caps_texts", total);
    }
    // 3. compression levels
    let levels = level_cases();
    par_for(ctx.threads, levels.len() as u64, 1, |i| {
        let c = levels[i as usize];
        rep.nontrivial(hash_str(&format!("{c:?}")));
        let (v, outcome) = judge_level(&src, &content, c);
        rep.count(&format!("levels.{}.{outcome}", format!("{c:?}").split('(').next().unwrap_or("")), 1);
        if let Some((k, what)) = v {
            rep.violation(k, what, json!({"kind": "compression", "compression": format!("{c:?}")}), i);
        }
    });
    rep.eval(levels.len() as u64);
    // 4. metadata setters, numbers, sources
    let odd = odd_strings();
    par_for(ctx.threads, odd.len() as u64, 1, |i| {
        let s = &odd[i as usize];
        let short: String = s.chars().take(24).collect();
        let r = guard(|| {
            let b = PackageBuilder::new(s, s, s, s, s)
                .release(s.clone())
                .epoch(u32::MAX)
                .description(s.clone())
                .vendor(s.clone())
                .packager(s.clone())
                .group(s.clone())
                .url(s.clone())
                .vcs(s.clone())
                .cookie(s)
                .build_host(s)
                .compression(rpm::CompressionType::None)
                .pre_install_script(s.clone())
                .verify_script(rpm::Scriptlet::new(s.clone()).flags(rpm::ScriptletFlags::from_bits_retain(u32::MAX)).prog(vec![s.clone()]))
                .add_changelog_entry(s, s, u32::MAX)
                .requires(rpm::Dependency::eq(s.clone(), s.clone()))
                .provides(rpm::Dependency::any(s.clone()))
                .with_file(&src, FileOptions::new("/etc/odd").user(s.clone()).group(s.clone()).symlink(s.clone()))?;
            b.build().map(|p| {
                let mut v = Vec::new();
                p.write(&mut v).map(|_| v.len())
            })
        });
        rep.nontrivial(hash_str(s) ^ 2);
        if let Err(p) = r {
            rep.violation(format!("panic:metadata-setters:{}", p.site()), format!("metadata string {short:?}… makes the builder panic: {}", p.message), json!({"kind": "metadata", "string_prefix": short, "len": s.len()}), s.len() as u64);
        }
    });
    rep.eval(odd.len() as u64);
    rep.count("metadata_strings", odd.len() as u64);
    let modes: Vec<i32> = vec![0, -1, i32::MIN, i32::MAX, 65535, 65536, 0o170000, 0o100644, 0o010644, 0o140777, -32768, -32769];
    for m in modes {
        rep.eval(1);
        rep.nontrivial(hash_str(&format!("mode{m}")));
        let r = guard(|| new_builder().with_file(&src, FileOptions::new("/etc/m").mode(FileMode::from(m))).and_then(|b| b.build()).map(|_| ()));
        if let Err(p) = r {
            rep.violation(format!("panic:file-mode:{}", p.site()), format!("file mode {m} makes the builder panic: {}", p.message), json!({"kind": "mode", "mode": m}), 1);
        }
    }
    // source files whose modification time cannot be converted (before 1970, beyond 2106) or sits at an
    // edge: the state of the file system is an argument too
    for (k, secs) in [-100_000i64, -1, 0, 1, (1 << 31) - 1, 1 << 31, (1i64 << 32) - 1, 1 << 32, 1 << 34].into_iter().enumerate() {
        let p = dir.join(format!("mtime-{k}"));
        if std::fs::write(&p, b"x").is_err() || !crate::gen::build::set_mtime(&p, secs) {
            continue;
        }
        rep.eval(1);
        rep.nontrivial(hash_str(&format!("mtime{secs}")));
        let r = guard(|| new_builder().with_file(&p, FileOptions::new("/etc/mtime")).and_then(|b| b.build()).map(|_| ()));
        if let Err(pn) = r {
            rep.violation(format!("panic:source-mtime:{}", pn.site()), format!("a source file dated {secs} s makes the builder panic: {}", pn.message), json!({"kind": "source-mtime", "secs": secs}), 1);
        }
    }
    for (what, path) in [("missing-source", dir.join("does-not-exist")), ("directory-source", dir.clone())] {
        rep.eval(1);
        // a source that cannot be read as a file: with_file() or build() may refuse it (a builder that
        // reads its sources late refuses at build()); the property only rules out a panic
        let r = guard(|| new_builder().with_file(&path, FileOptions::new("/etc/s")).and_then(|b| b.build()).map(|_| ()));
        match r {
            Err(p) => rep.violation(format!("panic:{what}:{}", p.site()), p.message, json!({"kind": what}), 1),
            Ok(Ok(())) => rep.count(&format!("{what}.built"), 1),
            Ok(Err(_)) => rep.count(&format!("{what}.refused"), 1),
        }
    }
    for d in ["/", "./", "/usr/..", "./..", "/a/b", "a/b", "/a/../b"] {
        rep.sample(json!({"destination": d, "model": format!("{:?}", dest_model(d)), "library": format!("{:?}", guard(|| new_builder().with_file(&src, FileOptions::new(d)).map(|_| "accepted").map_err(|e| e.to_string())).map_err(|p| format!("PANIC {}", p.message)))}));
    }
    let _ = std::fs::remove_dir_all(&dir);
    feature_sets(ctx, rep);
}

/// building with every compression type in builds of the library that lack some or all of the
/// optional compressors: an error is fine, a panic is not
fn feature_sets(ctx: &Ctx, rep: &Report) {
    for o in crate::util::probe::observations(ctx, rep) {
        let kind = o.fields.first().map(|s| s.as_str()).unwrap_or("");
        if !(kind == "build" || kind == "reread") || o.fields.len() < 3 {
            continue;
        }
        rep.eval(1);
        rep.nontrivial(hash_str(&format!("probe|{}|{}|{}", o.set, kind, o.fields[1])));
        rep.count(&format!("feature_set_builds.{}.{}", o.set, o.fields[2].split(':').next().unwrap_or("")), 1);
        if o.fields[2].starts_with("panic") {
            rep.violation(
                format!("panic:feature-set:{kind}:{}", o.fields[1]),
                format!("built with feature set {}: {kind} with compression {} panics ({})", o.set, o.fields[1], o.fields[2]),
                json!({"kind": "feature-probe", "set": o.set, "observation": o.fields.join(" ")}),
                0,
            );
        }
    }
}

fn replay(ctx: &Ctx, w: &serde_json::Value, rep: &Report) {
    let dir = ctx.work_dir("replay");
    let src = dir.join("source-file");
    std::fs::write(&src, b"c17 file content").unwrap();
    match w["kind"].as_str().unwrap_or("") {
        "destination" => {
            let d = w["destination"].as_str().unwrap_or("");
            let r = judge_dest(&src, d);
            println!("monitor: destination {d:?} model {:?} -> {:?}", dest_model(d), r);
            if let Some((k, what)) = r {
                rep.violation(k, what, w.clone(), 0);
            }
        }
        "compression" => {
            for c in level_cases() {
                if Some(format!("{c:?}").as_str()) == w["compression"].as_str() {
                    let (v, o) = judge_level(&src, b"c17 file content", c);
                    println!("monitor: {c:?} -> {o} {v:?}");
                    if let Some((k, what)) = v {
                        rep.violation(k, what, w.clone(), 0);
                    }
                }
            }
        }
        "destination-set" => {
            let set: Vec<String> = w["destinations"].as_array().map(|a| a.iter().filter_map(|x| x.as_str().map(|s| s.to_string())).collect()).unwrap_or_default();
            let r = guard(|| {
                let mut b = new_builder();
                for d in &set {
                    b = match b.with_file(&src, FileOptions::new(d.as_str())) {
                        Ok(b) => b,
                        Err(e) => return format!("with_file({d:?}) -> Err({e})"),
                    };
                }
                format!("build -> {:?}", b.build().map(|_| ()).map_err(|e| e.to_string()))
            });
            println!("monitor: destinations {set:?} -> {:?}", r.as_ref().map_err(|p| p.message.clone()));
            if let Err(p) = r {
                rep.violation(format!("panic:destination-set:{}", p.site()), p.message, w.clone(), 0);
            }
        }
        "feature-probe" => feature_sets(ctx, rep),
        _ => println!("witness: {w}"),
    }
    let _ = std::fs::remove_dir_all(&dir);
}
