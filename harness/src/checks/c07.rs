//! C07 — payload iteration returns every file's exact content under its own metadata.

use super::CheckDef;
use crate::gen::build::*;
use crate::gen::hdr::*;
use crate::model::codec::*;
use crate::model::cpio as mcpio;
use crate::util::par::{guard, par_for};
use crate::util::report::{Ctx, Meta, Report};
use crate::util::rng::{hash_bytes, Rng};
use crate::util::sha256_hex;
use rpm::Package;
use serde_json::json;
use std::collections::BTreeMap;

pub fn def() -> CheckDef {
    CheckDef { id: "C07", run, meta, dbg: false, replay: Some(replay) }
}

fn meta(_ctx: &Ctx) -> Meta {
    Meta {
        level: "exploration",
        rule: "built packages: seeded file sets (0..n files, every size mod 4 around the padding boundary, 0, 4095..4097, 65535..65537, MiB-sized, compressible and incompressible, names up to 4095 bytes, dirs and symlinks) x every compression type and level in its documented range x standard and forced large-file (stripped cpio) mode, iterated with files() directly and after write+parse: the yielded sequence must equal the configuration ordered by path, each content the configured bytes, each metadata that path's (mode, owner, link target), size and digest matching for regular files. Foreign packages: the asset packages and hand-encoded packages whose archive omits %ghost files / orders entries differently / uses crc magic / stripped entries out of order, judged against an independent decompression + cpio decoding (name -> bytes) and the header's per-path metadata. Builds of the library with three other cargo feature sets must read back whatever they manage to build. distinct_nontrivial = distinct (package, mode) iterations fully compared".into(),
        assumptions: vec!["large-file mode forced through the verif-hooks feature; codec crates for independent decompression".into()],
        floor_distinct: 50,
    }
}

struct Expect {
    path: Vec<u8>,
    content: Vec<u8>,
    mode: u16,
    user: Vec<u8>,
    linkto: Vec<u8>,
    check_size_digest: bool,
}

fn compare_iteration(pkg: &Package, expect: &[Expect]) -> Vec<(String, String)> {
    let mut v = Vec::new();
    let it = match pkg.files() {
        Ok(it) => it,
        Err(e) => {
            v.push(("files-fails".to_string(), format!("files() fails: {e}")));
            return v;
        }
    };
    let mut got = Vec::new();
    for (i, f) in it.enumerate() {
        match f {
            Ok(f) => got.push(f),
            Err(e) => {
                v.push(("iteration-error".to_string(), format!("item {i} of a well-formed archive is an error: {e}")));
                return v;
            }
        }
        if i > expect.len() + 8 {
            break;
        }
    }
    if got.len() != expect.len() {
        v.push(("count".to_string(), format!("{} files yielded, {} archived", got.len(), expect.len())));
    }
    for (i, (g, e)) in got.iter().zip(expect).enumerate() {
        use std::os::unix::ffi::OsStrExt;
        let gpath = collapse_slashes(g.metadata.path.as_os_str().as_bytes());
        if gpath != collapse_slashes(&e.path) {
            v.push(("order-or-pairing".to_string(), format!("item {i}: yielded under {:?}, archive position {i} holds {:?}", lossy(&gpath), lossy(&e.path))));
            // content may still be right; the pairing is already wrong
        }
        if g.content != e.content {
            let k = if g.content.len() == e.content.len() { "content" } else { "content-length" };
            v.push((
                k.to_string(),
                format!("item {i} ({}): {} bytes yielded (sha256 {}), {} bytes archived (sha256 {})", lossy(&e.path), g.content.len(), &sha256_hex(&g.content)[..16], e.content.len(), &sha256_hex(&e.content)[..16]),
            ));
        }
        if gpath == collapse_slashes(&e.path) {
            if g.metadata.mode.raw_mode() != e.mode || g.metadata.ownership.user.as_bytes() != e.user.as_slice() || g.metadata.linkto.as_bytes() != e.linkto.as_slice() {
                v.push(("metadata".to_string(), format!("item {i} ({}): metadata (mode {:#o}, user {:?}, link {:?}) is not that path's (mode {:#o}, user {:?}, link {:?})", lossy(&e.path), g.metadata.mode.raw_mode(), g.metadata.ownership.user, g.metadata.linkto, e.mode, lossy(&e.user), lossy(&e.linkto))));
            }
            if e.check_size_digest {
                if g.metadata.size != g.content.len() {
                    v.push(("size".to_string(), format!("item {i} ({}): recorded size {} but {} bytes yielded", lossy(&e.path), g.metadata.size, g.content.len())));
                }
                if let Some(d) = &g.metadata.digest {
                    if d.algorithm() == rpm::DigestAlgorithm::Sha2_256 && d.as_hex() != sha256_hex(&g.content) {
                        v.push(("digest".to_string(), format!("item {i} ({}): recorded digest {} but content hashes to {}", lossy(&e.path), d.as_hex(), sha256_hex(&g.content))));
                    }
                }
            }
        }
    }
    v
}

fn expect_of_cfg(cfg: &BuildCfg) -> Vec<Expect> {
    let mut v: Vec<(String, Expect)> = cfg
        .files
        .iter()
        .map(|f| {
            let p = installed_path(&f.dest);
            (
                format!(".{p}"),
                Expect {
                    path: p.into_bytes(),
                    content: file_content(f),
                    mode: expected_mode(f),
                    user: f.user.clone().unwrap_or("root".into()).into_bytes(),
                    linkto: f.symlink.clone().unwrap_or_default().into_bytes(),
                    check_size_digest: expected_mode(f) & 0o170000 == 0o100000,
                },
            )
        })
        .collect();
    v.sort_by(|a, b| a.0.as_bytes().cmp(b.0.as_bytes()));
    v.into_iter().map(|(_, e)| e).collect()
}

/// expectation for a foreign package from an independent decoding of its bytes
fn expect_of_bytes(bytes: &[u8]) -> Result<Vec<Expect>, String> {
    let p = walk_package(bytes)?;
    let fl = decode_files(bytes, &p.hdr)?;
    let comp = p.hdr.get_str(bytes, tag::PAYLOADCOMPRESSOR).map(|c| lossy(&c));
    let archive = mcpio::decompress(comp.as_deref(), &bytes[p.payload_start..])?;
    let sizes = fl.sizes.clone();
    let (entries, _) = mcpio::decode(&archive, &|i| sizes.get(i as usize).copied())?;
    let mut out = Vec::new();
    for e in entries {
        let idx = if &e.magic == b"07070X" {
            e.index as usize
        } else {
            let name = e.name.strip_prefix(b".").unwrap_or(&e.name).to_vec();
            fl.paths.iter().position(|pp| *pp == name || pp.strip_prefix(b"/") == Some(&name[..]) || pp.rsplit(|b| *b == b'/').next() == Some(&e.name[..])).ok_or(format!("archive name {:?} not in header", lossy(&e.name)))?
        };
        let mode = *fl.modes.get(idx).ok_or("mode missing")?;
        out.push(Expect {
            path: fl.paths[idx].clone(),
            content: e.data,
            mode,
            user: fl.users.get(idx).cloned().unwrap_or_default(),
            linkto: fl.linktos.get(idx).cloned().unwrap_or_default(),
            check_size_digest: mode & 0o170000 == 0o100000 && e.nlink <= 1 && fl.digests.get(idx).map(|d| !d.is_empty()).unwrap_or(false) && fl.digest_algo == Some(8),
        });
    }
    Ok(out)
}

fn ladder_cfg(rng: &mut Rng, i: u64, thorough: bool) -> BuildCfg {
    let mut cfg = gen_cfg(rng, &GenOpts { max_files: 0, ..Default::default() });
    cfg.files.clear();
    let nfiles = match rng.below(6) {
        // every ninth package has many entries (per-entry bookkeeping adds up)
        _ if i % 9 == 4 => 40 + rng.usize(if thorough { 400 } else { 120 }),
        0 => 0,
        1 => 1,
        _ => 1 + rng.usize(7),
    };
    let mut used = std::collections::BTreeSet::new();
    for k in 0..nfiles {
        let size = match rng.below(10) {
            0..=4 => rng.usize(14),
            5 => 4093 + rng.usize(8),
            6 => 65533 + rng.usize(8),
            7 => rng.usize(100_000),
            8 if thorough || i % 8 == 0 => (1 << 20) + rng.usize(2 << 20),
            _ => 100 + rng.usize(4000),
        };
        let kind = rng.below(10);
        let dest = if k == 0 && i % 37 == 5 {
            // a name close to the 4096-byte cpio limit
            let mut p = String::new();
            while p.len() < 4000 {
                p.push_str("/");
                p.push_str(&"d".repeat(200));
            }
            p.truncate(4080);
            format!("{p}/f")
        } else {
            rand_dest(rng, &mut used, k)
        };
        let (mode, symlink, size) = match kind {
            0 => (Some(0o120777), Some("../x".to_string()), 0),
            1 => (Some(0o040755), None, 0),
            2..=5 => (Some(0o100000 | [0o644, 0o755, 0o600][rng.usize(3)]), None, size),
            _ => (None, None, size),
        };
        // sibling directories whose names are prefixes of each other (byte order vs component order)
        let dest = if k == 1 && i % 3 == 0 {
            let parent = ["/etc", "/usr/lib", ""][rng.usize(3)];
            let stem = ["foo", "x", "lib"][rng.usize(3)];
            let sfx = [".d", "-1", "+", " ", "", ".conf.d"][rng.usize(6)];
            used.insert(format!("{parent}/{stem}{sfx}/f{k}"));
            format!("{parent}/{stem}{sfx}/f{k}")
        } else if k == 2 && i % 3 == 0 {
            let parent = ["/etc", "/usr/lib", ""][rng.usize(3)];
            let stem = ["foo", "x", "lib"][rng.usize(3)];
            format!("{parent}/{stem}/g{k}")
        } else {
            dest
        };
        // the same file meant by a destination with a redundant separator
        let dest = if dest.len() < 1000 && rng.chance(1, 6) { respell_with_double_separator(&dest, rng) } else { dest };
        cfg.files.push(FileCfg {
            dest,
            // incompressible, text-like, or a single repeated byte (extreme compression ratios)
            content_kind: ["noise", "text", "zero", "text"][rng.usize(4)].into(),
            size,
            content_seed: rng.next(),
            mode,
            source_perm: 0o644,
            user: if rng.bool() { Some(["alice", "bob", "root"][rng.usize(3)].to_string()) } else { None },
            group: None,
            flags: if rng.chance(1, 10) { vec!["ghost".into()] } else { vec![] },
            caps: None,
            symlink,
            mtime: 1_500_000_000,
            verify: None,
        });
    }
    cfg
}

fn foreign_packages(rng: &mut Rng, n: usize) -> Vec<(String, Vec<u8>)> {
    let mut out = Vec::new();
    for k in 0..n {
        let nfiles = 2 + rng.usize(5);
        let mut files = Vec::new();
        let mut contents = Vec::new();
        for i in 0..nfiles {
            let size = rng.usize(40);
            let c = rng.bytes(size);
            let mut f = HFile::new(["/etc/", "/usr/bin/", "/opt/x/"][rng.usize(3)], &format!("f{i}"), 0o100644, &c);
            f.user = [&b"root"[..], b"alice", b"bob"][rng.usize(3)].to_vec();
            files.push(f);
            contents.push(c);
        }
        let variant = k % 6;
        let ghost = rng.usize(nfiles - 1);
        if variant == 0 {
            files[ghost].flags |= 1 << 6;
        }
        let files = files;
        let entry = |i: usize| mcpio::enc_newc(&[b".".as_slice(), &files[i].path()].concat(), files[i].mode as u32, i as u32 + 1, &contents[i]);
        let (label, archive, compressor): (&str, Vec<u8>, Option<&str>) = match variant {
            0 => {
                // %ghost files are listed in the header but left out of the archive
                let mut a = Vec::new();
                for i in 0..nfiles {
                    if i != ghost {
                        a.extend(entry(i));
                    }
                }
                a.extend(mcpio::enc_trailer());
                ("ghost-omitted", a, None)
            }
            1 => {
                // archive ordered differently from the header
                let mut order: Vec<usize> = (0..nfiles).collect();
                rng.shuffle(&mut order);
                if order.iter().enumerate().all(|(i, o)| i == *o) {
                    order.swap(0, 1);
                }
                let mut a = Vec::new();
                for i in order {
                    a.extend(entry(i));
                }
                a.extend(mcpio::enc_trailer());
                ("reordered", a, Some("gzip"))
            }
            2 => {
                // crc magic
                let mut a = Vec::new();
                for i in 0..nfiles {
                    let mut e = entry(i);
                    e[..6].copy_from_slice(b"070702");
                    a.extend(e);
                }
                a.extend(mcpio::enc_trailer());
                ("crc-magic", a, Some("zstd"))
            }
            3 => {
                // stripped entries referring to indexes out of order
                let mut order: Vec<usize> = (0..nfiles).collect();
                rng.shuffle(&mut order);
                let mut a = Vec::new();
                for i in order {
                    a.extend(mcpio::enc_stripped(i as u32, &contents[i]));
                }
                a.extend(mcpio::enc_trailer());
                ("stripped-out-of-order", a, None)
            }
            4 => {
                // the numeric fields in UPPER-case hex, as GNU cpio writes them
                let mut a = Vec::new();
                for i in 0..nfiles {
                    let mut e = entry(i);
                    e[6..110].make_ascii_uppercase();
                    a.extend(e);
                }
                let mut t = mcpio::enc_trailer();
                t[6..110].make_ascii_uppercase();
                a.extend(t);
                ("upper-case-hex", a, Some("gzip"))
            }
            _ => {
                let mut a = Vec::new();
                for i in 0..nfiles {
                    a.extend(entry(i));
                }
                a.extend(mcpio::enc_trailer());
                ("plain", a, Some("xz"))
            }
        };
        let payload = mcpio::compress(compressor.unwrap_or("none"), &archive);
        out.push((label.to_string(), package_with_files("foreign", &files, &payload, compressor, variant == 3)));
    }
    out
}

fn judge_built(cfg: &BuildCfg, dir: &std::path::Path, rep: &Report, local: &mut BTreeMap<String, u64>) {
    let w = || json!({"cfg": cfg});
    let pkg = match guard(|| build(cfg, dir)) {
        Ok(Ok(p)) => p,
        Ok(Err(e)) => {
            rep.violation(format!("build-error:{}", crate::util::par::normalize_msg(&e.to_string())), format!("a valid file set does not build: {e}"), w(), 0);
            return;
        }
        Err(p) => {
            rep.violation(format!("panic:build:{}", p.site()), p.message, w(), 0);
            return;
        }
    };
    let expect = expect_of_cfg(cfg);
    let mode = if cfg.large_files { "large-file" } else { "standard" };
    let bytes = pkg_bytes(&pkg).unwrap_or_default();
    let reparsed = guard(|| Package::parse(&mut &bytes[..]));
    for (how, p) in [("direct", Some(&pkg)), ("reparsed", reparsed.as_ref().ok().and_then(|r| r.as_ref().ok()))] {
        let Some(p) = p else {
            rep.violation("reparse-fails", "the built package does not parse back".to_string(), w(), 0);
            continue;
        };
        rep.eval(1);
        match guard(|| compare_iteration(p, &expect)) {
            Ok(ms) => {
                rep.nontrivial(hash_bytes(&bytes[..bytes.len().min(8192)]) ^ (how.len() as u64) << 56);
                *local.entry(format!("iterated.{mode}.{how}")).or_insert(0) += 1;
                *local.entry("files_compared".into()).or_insert(0) += expect.len() as u64;
                for (k, what) in ms {
                    rep.violation(format!("{k}:{mode}"), format!("[built, {mode} cpio, {how}] {what}"), w(), cfg.files.len() as u64 * 1000 + cfg.files.iter().map(|f| f.size as u64 / 1000).sum::<u64>());
                }
            }
            Err(pn) => rep.violation(format!("panic:files:{}", pn.site()), format!("[built, {mode}] iteration panics: {}", pn.message), w(), 0),
        }
    }
    *local.entry(format!("compression.{}", cfg.compression.as_ref().map(|c| format!("{}-{}", c.0, c.1)).unwrap_or("default".into()))).or_insert(0) += 1;
}

fn run(ctx: &Ctx, rep: &Report) {
    let thorough = ctx.tier.pick(false, true);
    let n: u64 = ctx.tier.pick(260, 16_000);
    let base = ctx.work_dir("build");
    par_for(ctx.threads, n, 1, |i| {
        let mut rng = Rng::for_case(ctx.seed, "C07", i);
        let mut cfg = ladder_cfg(&mut rng, i, thorough);
        let dir = base.join(format!("c{i}"));
        let mut local = BTreeMap::new();
        // the same file set in standard and in large-file mode
        cfg.large_files = false;
        judge_built(&cfg, &dir, rep, &mut local);
        if i % 2 == 0 {
            cfg.large_files = true;
            judge_built(&cfg, &dir, rep, &mut local);
        }
        rep.counts(&local);
        if i < 2 {
            rep.sample(json!({"cfg": cfg}));
        }
        let _ = std::fs::remove_dir_all(&dir);
    });
    let _ = std::fs::remove_dir_all(&base);
    // every documented level at least once (small file set)
    let mut levels: Vec<(String, i64)> = vec![("none".into(), 0)];
    levels.extend((0..=9).map(|l| ("gzip".to_string(), l)));
    levels.extend((0..=9).map(|l| ("xz".to_string(), l)));
    levels.extend((1..=22).map(|l| ("zstd".to_string(), l)));
    levels.extend((1..=9).map(|l| ("bzip2".to_string(), l)));
    let base = ctx.work_dir("levels");
    par_for(ctx.threads, levels.len() as u64, 1, |i| {
        let mut rng = Rng::for_case(ctx.seed, "C07-levels", i);
        let mut cfg = ladder_cfg(&mut rng, 1, false);
        cfg.compression = Some(levels[i as usize].clone());
        // every fourth of these also carries a file of one repeated byte: compression ratios of
        // several thousand to one are legitimate
        if i % 4 == 0 {
            let size = [300_000usize, 2_000_000, 1_000_001][(i / 4 % 3) as usize];
            cfg.files.push(FileCfg { dest: format!("/opt/zeros/run{i}.bin"), content_kind: "zero".into(), size, content_seed: 0, mode: Some(0o100644), source_perm: 0o644, user: None, group: None, flags: vec![], caps: None, symlink: None, mtime: 1_500_000_000, verify: None });
        }
        let dir = base.join(format!("l{i}"));
        let mut local = BTreeMap::new();
        judge_built(&cfg, &dir, rep, &mut local);
        rep.counts(&local);
        let _ = std::fs::remove_dir_all(&dir);
    });
    let _ = std::fs::remove_dir_all(&base);
    // sources whose stat() size is not their readable length (files of the proc file system): the size
    // recorded for a file is the size of what is archived for it
    for (k, src) in ["/proc/version", "/proc/filesystems", "/proc/sys/kernel/ostype"].iter().enumerate() {
        if !std::path::Path::new(src).exists() {
            continue;
        }
        rep.eval(1);
        let built = guard(|| {
            rpm::PackageBuilder::new("procsrc", "1", "MIT", "noarch", "proc source")
                .compression([rpm::CompressionType::None, rpm::CompressionType::Gzip, rpm::CompressionType::Zstd][k % 3])
                .with_file(src, rpm::FileOptions::new(format!("/opt/proc/f{k}")).mode(rpm::FileMode::regular(0o644)))
                .and_then(|b| b.build())
        });
        match built {
            Ok(Ok(pkg)) => {
                let r = guard(|| -> Result<Option<String>, rpm::Error> {
                    for f in pkg.files()? {
                        let f = f?;
                        if f.content.len() as u64 != f.metadata.size as u64 {
                            return Ok(Some(format!("{}: {} bytes yielded, the header records a size of {}", f.metadata.path.display(), f.content.len(), f.metadata.size)));
                        }
                        let d = crate::util::sha256_hex(&f.content);
                        if f.metadata.digest.as_ref().map(|x| x.as_hex().to_string()) != Some(d.clone()) {
                            return Ok(Some(format!("{}: content hashes to {d}, the header records {:?}", f.metadata.path.display(), f.metadata.digest.as_ref().map(|x| x.as_hex().to_string()))));
                        }
                    }
                    Ok(None)
                });
                match r {
                    Ok(Ok(None)) => rep.count("proc_sources.consistent", 1),
                    Ok(Ok(Some(what))) => rep.violation("size-or-digest:proc-source", format!("[built from {src}] {what}"), json!({"source": src}), 0),
                    Ok(Err(e)) => rep.violation(format!("iteration-error:proc-source:{}", crate::util::par::normalize_msg(&e.to_string())), format!("[built from {src}] {e}"), json!({"source": src}), 0),
                    Err(p) => rep.violation(format!("panic:files:{}", p.site()), p.message, json!({"source": src}), 0),
                }
            }
            Ok(Err(_)) => rep.count("proc_sources.refused", 1),
            Err(p) => rep.violation(format!("panic:build:{}", p.site()), p.message, json!({"source": src}), 0),
        }
    }
    // foreign packages: assets
    for rel in ASSETS {
        let Ok(bytes) = std::fs::read(ctx.asset(rel)) else { continue };
        rep.eval(1);
        match (expect_of_bytes(&bytes), guard(|| Package::parse(&mut &bytes[..]))) {
            (Ok(expect), Ok(Ok(pkg))) => match guard(|| compare_iteration(&pkg, &expect)) {
                Ok(ms) => {
                    rep.nontrivial(hash_bytes(&bytes[..4096.min(bytes.len())]));
                    rep.count("iterated.asset", 1);
                    rep.count("files_compared", expect.len() as u64);
                    for (k, what) in ms {
                        rep.violation(format!("{k}:foreign"), format!("[asset {rel}] {what}"), json!({"asset": rel}), 1);
                    }
                }
                Err(p) => rep.violation(format!("panic:files:{}", p.site()), format!("[asset {rel}] {}", p.message), json!({"asset": rel}), 1),
            },
            (Err(e), _) => rep.note(format!("asset {rel}: independent decoding failed ({e}); not judged")),
            _ => rep.note(format!("asset {rel}: not parsed by the library; not judged here")),
        }
    }
    // foreign packages: hand-encoded
    let mut rng = Rng::for_case(ctx.seed, "C07-foreign", 0);
    let foreign = foreign_packages(&mut rng, ctx.tier.pick(40, 2000));
    par_for(ctx.threads, foreign.len() as u64, 4, |i| {
        let (label, bytes) = &foreign[i as usize];
        rep.eval(1);
        match (expect_of_bytes(bytes), guard(|| Package::parse(&mut &bytes[..]))) {
            (Ok(expect), Ok(Ok(pkg))) => match guard(|| compare_iteration(&pkg, &expect)) {
                Ok(ms) => {
                    rep.nontrivial(hash_bytes(bytes));
                    rep.count(&format!("iterated.foreign.{label}"), 1);
                    for (k, what) in ms {
                        rep.violation(format!("{k}:foreign-{label}"), format!("[foreign {label}] {what}"), json!({"label": label, "input_hex": hex::encode(bytes)}), bytes.len() as u64);
                    }
                }
                Err(p) => rep.violation(format!("panic:files:{}", p.site()), format!("[foreign {label}] {}", p.message), json!({"label": label, "input_hex": hex::encode(bytes)}), bytes.len() as u64),
            },
            (Err(e), _) => rep.inconclusive(format!("harness produced a foreign package its own decoder rejects: {e}")),
            (_, Ok(Err(e))) => rep.violation(format!("foreign-rejected:{}", crate::util::par::normalize_msg(&e.to_string())), format!("[foreign {label}] a well-formed package is rejected: {e}"), json!({"label": label, "input_hex": hex::encode(bytes)}), bytes.len() as u64),
            (_, Err(p)) => rep.violation(format!("panic:parse:{}", p.site()), p.message, json!({"label": label, "input_hex": hex::encode(bytes)}), bytes.len() as u64),
        }
    });
    let hooks = rpm::verif_hooks::snapshot();
    let (wr, rd) = (hooks.get("builder.stripped_entry_written").copied().unwrap_or(0), hooks.get("payload.stripped_entry_read").copied().unwrap_or(0));
    rep.count("hook.builder.stripped_entry_written", wr);
    rep.count("hook.payload.stripped_entry_read", rd);
    if wr == 0 || rd == 0 {
        rep.inconclusive("stripped (large-file) cpio entries were not both written and read");
    }
    feature_sets(ctx, rep);
}

/// whatever a build of the library with fewer compressors manages to build, it must read back
fn feature_sets(ctx: &Ctx, rep: &Report) {
    let obs = crate::util::probe::observations(ctx, rep);
    for o in &obs {
        if o.fields.first().map(|s| s.as_str()) != Some("reread") || o.fields.len() < 3 {
            continue;
        }
        rep.eval(1);
        rep.count(&format!("feature_set_rereads.{}", o.set), 1);
        if o.fields[2] != "ok:1" {
            rep.violation(
                format!("feature-set-reread:{}", o.fields[1]),
                format!("built with feature set {}: a package built with compression {} does not give its one file back: {}", o.set, o.fields[1], o.fields[2]),
                json!({"kind": "feature-probe", "set": o.set, "observation": o.fields.join(" ")}),
                0,
            );
        }
    }
}

fn replay(ctx: &Ctx, w: &serde_json::Value, rep: &Report) {
    if let Ok(cfg) = serde_json::from_value::<BuildCfg>(w["cfg"].clone()) {
        let dir = ctx.work_dir("replay");
        let mut local = BTreeMap::new();
        judge_built(&cfg, &dir, rep, &mut local);
        println!("monitor: {local:?}");
        let _ = std::fs::remove_dir_all(&dir);
    } else if let Some(h) = w["input_hex"].as_str() {
        let bytes = hex::decode(h).unwrap_or_default();
        if let (Ok(expect), Ok(Ok(pkg))) = (expect_of_bytes(&bytes), guard(|| Package::parse(&mut &bytes[..]))) {
            if let Ok(ms) = guard(|| compare_iteration(&pkg, &expect)) {
                for (k, what) in ms {
                    println!("monitor: {k}: {what}");
                    rep.violation(k, what, w.clone(), 0);
                }
            }
        }
    }
}
