//! C18 — file modes convert without losing or inventing bits (complete enumeration).

use super::CheckDef;
use crate::util::par::{guard, par_for};
use crate::util::report::{Ctx, Meta, Report};
use rpm::FileMode;
use serde_json::json;
use std::sync::atomic::{AtomicU64, Ordering};

pub fn def() -> CheckDef {
    CheckDef { id: "C18", run, meta, dbg: false, replay: Some(replay) }
}

fn meta(_ctx: &Ctx) -> Meta {
    Meta {
        level: "exploration",
        rule: "complete enumeration: all 65 536 16-bit words through From<u16>, all 2^32 i32 values through From<i32>/try_from_raw, all 65 536 arguments of each named constructor; oracle = direct bit arithmetic. distinct_nontrivial counts distinct 16-bit words judged (the i32 sweep is counted in counters.i32_values)".into(),
        assumptions: vec!["bit arithmetic of the oracle (masks 0o170000 / 0o7777) is the POSIX definition".into()],
        floor_distinct: 65536,
    }
}

const TYPE_MASK: u16 = 0o170000;
const PERM_MASK: u16 = 0o7777;

fn expected_variant(w: u16) -> &'static str {
    match w & TYPE_MASK {
        0o040000 => "dir",
        0o100000 => "regular",
        0o120000 => "symlink",
        _ => "invalid",
    }
}

fn variant(m: &FileMode) -> &'static str {
    match m {
        FileMode::Dir { .. } => "dir",
        FileMode::Regular { .. } => "regular",
        FileMode::SymbolicLink { .. } => "symlink",
        FileMode::Invalid { .. } => "invalid",
        #[allow(unreachable_patterns)]
        _ => "other",
    }
}

/// judge one 16-bit word; returns the first failed clause
fn judge_word(w: u16) -> Option<String> {
    let m = FileMode::from(w);
    if m.raw_mode() != w {
        return Some(format!("raw_mode {:#o} != {:#o}", m.raw_mode(), w));
    }
    if m.file_type() | m.permissions() != w {
        return Some(format!("file_type|permissions {:#o} != {:#o}", m.file_type() | m.permissions(), w));
    }
    if m.file_type() != w & TYPE_MASK || m.permissions() != w & PERM_MASK {
        return Some(format!("type/permission split wrong for {:#o}", w));
    }
    if variant(&m) != expected_variant(w) {
        return Some(format!("classified {} but type bits say {}", variant(&m), expected_variant(w)));
    }
    if u16::from(m) != w || u32::from(m) != w as u32 {
        return Some(format!("From<FileMode> for u16/u32 loses bits of {:#o}", w));
    }
    let ok = m.to_result().is_ok();
    if ok != (expected_variant(w) != "invalid") {
        return Some(format!("to_result() is_ok={} for {:#o}", ok, w));
    }
    None
}

fn judge_i32(x: i32) -> Option<String> {
    let m = FileMode::from(x);
    if x > 65535 || x < -32768 {
        if !matches!(m, FileMode::Invalid { .. }) {
            return Some(format!("{} outside 16-bit range not reported invalid", x));
        }
        if FileMode::try_from_raw(x).is_ok() {
            return Some(format!("try_from_raw({}) is Ok", x));
        }
    } else if x >= 0 {
        if m != FileMode::from(x as u16) {
            return Some(format!("i32 {} converts differently from the u16", x));
        }
        if FileMode::try_from_raw(x).is_ok() != (expected_variant(x as u16) != "invalid") {
            return Some(format!("try_from_raw({}) verdict wrong", x));
        }
    }
    // -32768..=-1: inside the signed 16-bit range, don't care (only no panic)
    None
}

fn judge_ctor(p: u16) -> Option<String> {
    for (name, m, ty) in [
        ("regular", FileMode::regular(p), 0o100000u16),
        ("dir", FileMode::dir(p), 0o040000),
        ("symbolic_link", FileMode::symbolic_link(p), 0o120000),
    ] {
        if m.permissions() != p & PERM_MASK {
            return Some(format!("{}({:#o}).permissions() = {:#o}", name, p, m.permissions()));
        }
        if m.raw_mode() != ty | (p & PERM_MASK) || m.file_type() != ty {
            return Some(format!("{}({:#o}).raw_mode() = {:#o}", name, p, m.raw_mode()));
        }
        if variant(&m) != expected_variant(ty) {
            return Some(format!("{} constructor gives variant {}", name, variant(&m)));
        }
    }
    None
}

fn run(ctx: &Ctx, rep: &Report) {
    // 1. all words
    for w in 0..=u16::MAX {
        rep.eval(1);
        rep.nontrivial(w as u64);
        match guard(|| judge_word(w)) {
            Ok(None) => {}
            Ok(Some(why)) => rep.violation(format!("word:{}", why.split(' ').next().unwrap_or("")), why, json!({"kind":"u16","value":w}), w as u64),
            Err(p) => rep.violation(format!("panic:{}", p.site()), p.message.clone(), json!({"kind":"u16","value":w}), w as u64),
        }
        match guard(|| judge_ctor(w)) {
            Ok(None) => {}
            Ok(Some(why)) => rep.violation(format!("ctor:{}", why.split('(').next().unwrap_or("")), why, json!({"kind":"ctor","value":w}), w as u64),
            Err(p) => rep.violation(format!("panic:{}", p.site()), p.message.clone(), json!({"kind":"ctor","value":w}), w as u64),
        }
    }
    rep.count("u16_words", 65536);
    rep.count("ctor_args", 3 * 65536);
    // 2. all i32
    let blocks: u64 = 1 << 16; // blocks of 65536 values
    let done = AtomicU64::new(0);
    par_for(ctx.threads, blocks, 64, |b| {
        let base = ((b as i64) << 16) + i32::MIN as i64;
        let r = guard(|| {
            for k in 0..65536i64 {
                let x = (base + k) as i32;
                if let Some(why) = judge_i32(x) {
                    return Some((x, why));
                }
            }
            None
        });
        match r {
            Ok(None) => {}
            Ok(Some((x, why))) => rep.violation(
                format!("i32:{}", if x > 65535 || x < -32768 { "out-of-range-not-invalid" } else { "in-range-differs" }),
                why,
                json!({"kind":"i32","value":x}),
                x.unsigned_abs() as u64,
            ),
            Err(p) => rep.violation(format!("panic:{}", p.site()), p.message.clone(), json!({"kind":"i32-block","base":base}), 0),
        }
        done.fetch_add(65536, Ordering::Relaxed);
    });
    let n = done.load(Ordering::Relaxed);
    rep.eval(n);
    rep.count("i32_values", n);
    rep.set_exhaustive(n == 1 << 32);
    for w in [0u16, 0o100644, 0o040755, 0o120777, 0o010644, 0o177777] {
        let m = FileMode::from(w);
        rep.sample(json!({"word": format!("{:#o}", w), "variant": variant(&m), "raw_mode": format!("{:#o}", m.raw_mode()), "file_type": format!("{:#o}", m.file_type()), "permissions": format!("{:#o}", m.permissions())}));
    }
    for x in [-32769i32, -32768, -1, 65535, 65536, i32::MAX, i32::MIN] {
        rep.sample(json!({"i32": x, "variant": variant(&FileMode::from(x)), "try_from_raw_ok": FileMode::try_from_raw(x).is_ok()}));
    }
}

fn replay(_ctx: &Ctx, w: &serde_json::Value, rep: &Report) {
    let v = w["value"].as_i64().unwrap_or(0);
    let r = match w["kind"].as_str().unwrap_or("") {
        "u16" => judge_word(v as u16),
        "ctor" => judge_ctor(v as u16),
        _ => judge_i32(v as i32),
    };
    println!("monitor: {:?}", r);
    if let Some(why) = r {
        rep.violation("replay", why, w.clone(), 0);
    }
}
