//! C16 — reported segment offsets are the real byte boundaries.

use super::CheckDef;
use crate::gen::build::*;
use crate::gen::corpus::*;
use crate::gen::hdr::*;
use crate::model::codec::*;
use crate::util::par::{guard, par_for};
use crate::util::report::{Ctx, Meta, Report};
use crate::util::rng::{hash_bytes, Rng};
use rpm::Package;
use serde_json::json;
use std::collections::BTreeMap;

pub fn def() -> CheckDef {
    CheckDef { id: "C16", run, meta, dbg: false, replay: Some(replay) }
}

fn meta(_ctx: &Ctx) -> Meta {
    Meta {
        level: "exploration",
        rule: "for the assets (also signed/cleared), packages emitted for seeded builder configurations (built/signed with four key types/cleared) and hand-encoded packages (entry counts 0..50, explicit sweep of signature-store sizes 0..40 so that every residue mod 8 occurs, random others), get_package_segment_offsets() is compared with the boundaries found by walking the bytes produced by Package::write with the independent decoder; header magic must sit at both header offsets, len - payload offset must equal the payload length, offsets strictly increasing. Further sweeps: unreferenced bytes at the end of either store, every prefix of sample inputs (whatever is accepted is judged), last string of the last entry unterminated at the end of the data section. distinct_nontrivial = distinct packages judged; counters list the signature-store residues mod 8 seen".into(),
        assumptions: vec!["independent decoder".into()],
        floor_distinct: 100,
    }
}

pub fn judge_pkg(pkg: &Package) -> Result<(u64, u32), (String, String)> {
    // writes that fail inside the lead, inside either header's intro / index / data and inside the
    // payload come first, on this thread: what a failed write leaves behind must not show later
    for k in [0usize, 50, 97, 104, 120, 150, 300, 1000] {
        let _ = pkg.write(&mut crate::util::FailAfter { left: k });
        let _ = pkg.metadata.write(&mut crate::util::FailAfter { left: k + 3 });
    }
    let mut out = Vec::new();
    pkg.write(&mut out).map_err(|e| ("write-fails".to_string(), e.to_string()))?;
    // the offsets describe what ANY writer receives, not only a Vec
    for max in [7usize, 4096] {
        let mut pw = crate::util::PlainWriter { out: Vec::new(), max };
        pkg.write(&mut pw).map_err(|e| ("write-fails".to_string(), e.to_string()))?;
        if pw.out != out {
            return Err(("written-bytes-depend-on-the-writer".into(), format!("a plain writer taking {max} bytes per call receives {} bytes, a Vec {}", pw.out.len(), out.len())));
        }
    }
    // ... nor on whether the package is written with write() or with write_file()
    if out.len() % 11 == 3 {
        let on_disk = crate::util::bytes_of_write_file(pkg, out.len()).map_err(|e| ("write-file-fails".to_string(), e.to_string()))?;
        if on_disk != out {
            return Err(("written-bytes-depend-on-the-writer:write_file".into(), format!("write_file() leaves {} bytes in the file, write() produces {}", on_disk.len(), out.len())));
        }
    }
    let o = pkg.metadata.get_package_segment_offsets();
    let p = walk_package(&out).map_err(|e| ("written-bytes-do-not-walk".to_string(), e))?;
    let want = (0u64, 96u64, p.hdr.start as u64, p.payload_start as u64);
    let got = (o.lead, o.signature_header, o.header, o.payload);
    if got != want {
        let which = if got.2 != want.2 { "header" } else if got.3 != want.3 { "payload" } else if got.1 != want.1 { "signature_header" } else { "lead" };
        return Err((format!("offset-wrong:{which}"), format!("reported offsets {got:?}, real boundaries {want:?} (sig il={} dl={}, hdr il={} dl={})", p.sig.il, p.sig.dl, p.hdr.il, p.hdr.dl)));
    }
    for (name, off) in [("signature_header", o.signature_header as usize), ("header", o.header as usize)] {
        if out.get(off..off + 3) != Some(&HDR_MAGIC[..]) {
            return Err((format!("no-intro-at:{name}"), format!("no header intro at the reported {name} offset {off}")));
        }
    }
    if (out.len() as u64).checked_sub(o.payload) != Some(pkg.content.len() as u64) {
        return Err(("payload-length".into(), format!("len - payload offset = {} but the payload has {} bytes", out.len() as i64 - o.payload as i64, pkg.content.len())));
    }
    if !(o.lead < o.signature_header && o.signature_header < o.header && o.header < o.payload) {
        return Err(("not-increasing".into(), format!("offsets {got:?} are not strictly increasing")));
    }
    Ok((hash_bytes(&out), p.sig.dl % 8))
}

fn observe(rep: &Report, local: &mut BTreeMap<String, u64>, source: &str, pkg: &Package, extra: serde_json::Value) {
    observe_one(rep, local, source, pkg, extra.clone());
    // the same package after emptying / replacing its signature header through the public Header API
    let mut cleared = pkg.clone();
    cleared.metadata.signature.clear();
    observe_one(rep, local, &format!("{source}+signature.clear()"), &cleared, extra.clone());
    let mut fresh = pkg.clone();
    fresh.metadata.signature = rpm::Header::<rpm::IndexSignatureTag>::new_empty();
    observe_one(rep, local, &format!("{source}+signature=new_empty()"), &fresh, extra);
}

fn observe_one(rep: &Report, local: &mut BTreeMap<String, u64>, source: &str, pkg: &Package, extra: serde_json::Value) {
    match guard(|| judge_pkg(pkg)) {
        Ok(Ok((h, residue))) => {
            rep.nontrivial(h);
            *local.entry(format!("judged.{source}")).or_insert(0) += 1;
            *local.entry(format!("sig_store_residue_mod8.{residue}")).or_insert(0) += 1;
        }
        Ok(Err((k, what))) => rep.violation(k, format!("[{source}] {what}"), extra, 0),
        Err(p) => rep.violation(format!("panic:{}", p.site()), p.message, extra, 0),
    }
}

fn residue_package(sig_store: usize, n_entries: usize) -> Vec<u8> {
    // signature header with one BIN entry of `sig_store` bytes (or none), main header with n entries
    let sig_items: Vec<(u32, Val)> = if sig_store == 0 { vec![] } else { vec![(tag::SIG_MD5, Val::Bin(vec![0xaa; sig_store]))] };
    let (se, ss) = layout(&sig_items);
    let main_items: Vec<(u32, Val)> = (0..n_entries).map(|i| (1000 + i as u32, Val::Str(format!("v{i}").into_bytes()))).collect();
    let (me, ms) = layout(&main_items);
    enc_package(&enc_lead("residue"), &enc_header(&se, &ss), &enc_header(&me, &ms), b"payload")
}

fn run(ctx: &Ctx, rep: &Report) {
    let keys = match load_keys(&ctx.repo_dir) {
        Ok(k) => k,
        Err(e) => {
            rep.inconclusive(format!("cannot load test keys: {e}"));
            return;
        }
    };
    let mut local = BTreeMap::new();
    for it in asset_items(&ctx.repo_dir, &keys).into_iter().flatten() {
        rep.eval(1);
        observe(rep, &mut local, "asset", &it.pkg, json!({"label": it.label}));
        if rep.sample_count() < 3 {
            let o = it.pkg.metadata.get_package_segment_offsets();
            rep.sample(json!({"label": it.label, "offsets": [o.lead, o.signature_header, o.header, o.payload], "len": it.bytes.len()}));
        }
    }
    // explicit residue sweep
    for s in 0..=40usize {
        for n in [0usize, 1, 2, 7, 50, 255, 256, 257, 300, 1000] {
            let b = residue_package(s, n);
            rep.eval(1);
            match guard(|| Package::parse(&mut &b[..])) {
                Ok(Ok(p)) => observe(rep, &mut local, "residue-sweep", &p, json!({"input_hex": hex::encode(&b)})),
                Ok(Err(_)) => *local.entry("rejected.residue-sweep".into()).or_insert(0) += 1,
                Err(_) => *local.entry("panicked.residue-sweep(judged by C04)".into()).or_insert(0) += 1,
            }
        }
    }
    // entry counts 0..3 with unreferenced bytes at the end of either store (a header may announce
    // more data than its entries use, including data with no entries at all)
    let mut sweep: Vec<Vec<u8>> = Vec::new();
    for sn in 0..=2usize {
        for sslack in 0..=17usize {
            for mn in [0usize, 1, 3] {
                for mslack in [0usize, 1, 7, 8, 16, 33] {
                    let sig_items: Vec<(u32, Val)> = (0..sn).map(|i| (tag::SIG_MD5 + 1000 * i as u32, Val::Bin(vec![0x55; 3 + i]))).collect();
                    let (se, mut ss) = layout(&sig_items);
                    ss.extend(std::iter::repeat(0xee).take(sslack));
                    let main_items: Vec<(u32, Val)> = (0..mn).map(|i| (1000 + i as u32, Val::Str(format!("v{i}").into_bytes()))).collect();
                    let (me, mut ms) = layout(&main_items);
                    ms.extend(std::iter::repeat(0xdd).take(mslack));
                    sweep.push(enc_package(&enc_lead("slack"), &enc_header(&se, &ss), &enc_header(&me, &ms), b"payload-bytes"));
                }
            }
        }
    }
    for b in &sweep {
        rep.eval(1);
        match guard(|| Package::parse(&mut &b[..])) {
            Ok(Ok(p)) => observe(rep, &mut local, "slack-sweep", &p, json!({"input_hex": hex::encode(b)})),
            Ok(Err(_)) => *local.entry("rejected.slack-sweep".into()).or_insert(0) += 1,
            Err(_) => *local.entry("panicked.slack-sweep(judged by C04)".into()).or_insert(0) += 1,
        }
    }
    // lead name fields with and without a terminator
    for fill in [0usize, 1, 64, 65, 66] {
        for (s_store, n) in [(0usize, 0usize), (5, 2)] {
            let mut b = residue_package(s_store, n);
            for (i, x) in b[10..76].iter_mut().enumerate() {
                *x = if i < fill { b'a' + (i % 26) as u8 } else { 0 };
            }
            rep.eval(1);
            match guard(|| Package::parse(&mut &b[..])) {
                Ok(Ok(p)) => observe(rep, &mut local, "lead-name", &p, json!({"input_hex": hex::encode(&b)})),
                Ok(Err(_)) => *local.entry("rejected.lead-name".into()).or_insert(0) += 1,
                Err(_) => *local.entry("panicked.lead-name(judged by C04)".into()).or_insert(0) += 1,
            }
        }
    }
    // lead fields that might steer the layout: signature type, lead type, major/minor version
    for st in [0u16, 1, 5, 6, 0xffff] {
        for (s_store, n) in [(0usize, 0usize), (5, 2), (16, 1)] {
            let mut b = residue_package(s_store, n);
            b[78..80].copy_from_slice(&st.to_be_bytes());
            for ty in [0u16, 1, 2] {
                b[6..8].copy_from_slice(&ty.to_be_bytes());
                for major in [3u8, 4, 0] {
                    b[4] = major;
                    rep.eval(1);
                    match guard(|| Package::parse(&mut &b[..])) {
                        Ok(Ok(p)) => observe(rep, &mut local, "lead-fields", &p, json!({"input_hex": hex::encode(&b)})),
                        Ok(Err(_)) => *local.entry("rejected.lead-fields".into()).or_insert(0) += 1,
                        Err(_) => *local.entry("panicked.lead-fields(judged by C04)".into()).or_insert(0) += 1,
                    }
                }
            }
        }
    }
    // the last string of the last entry runs to the end of the data section without a terminator
    // (STRING, STRING_ARRAY and I18NSTRING; 1-3 items), in the signature header and in the main header
    for which in 0..2 {
        for kind in 0..3 {
            for n in 1..=3usize {
                let strs: Vec<Vec<u8>> = (0..n).map(|i| format!("item{i}").into_bytes()).collect();
                let last = match kind {
                    0 => Val::Str(strs[0].clone()),
                    1 => Val::StrArray(strs.clone()),
                    _ => Val::I18n(strs.clone()),
                };
                let mut items: Vec<(u32, Val)> = vec![(1000, Val::Str(b"n".to_vec())), (1001, Val::Int32(vec![7]))];
                items.push((1002 + kind as u32, last));
                let (e, mut st) = layout(&items);
                st.pop(); // drop the final NUL: the data section now ends inside the last string
                let cut = enc_header(&e, &st);
                let (oe, os) = layout(&[(1000, Val::Str(b"other".to_vec()))]);
                let other = enc_header(&oe, &os);
                let b = if which == 0 { enc_package(&enc_lead("tail"), &cut, &other, b"payload-bytes") } else { enc_package(&enc_lead("tail"), &other, &cut, b"payload-bytes") };
                rep.eval(1);
                match guard(|| Package::parse(&mut &b[..])) {
                    Ok(Ok(p)) => observe(rep, &mut local, "unterminated-tail", &p, json!({"input_hex": hex::encode(&b)})),
                    Ok(Err(_)) => *local.entry("rejected.unterminated-tail".into()).or_insert(0) += 1,
                    Err(_) => *local.entry("panicked.unterminated-tail(judged by C04)".into()).or_insert(0) += 1,
                }
            }
        }
    }
    // every prefix of a few of those inputs: whatever the parser accepts must obey the property
    for b in sweep.iter().step_by(41).chain([residue_package(5, 2), residue_package(0, 0)].iter()) {
        for cut in 96..b.len() {
            rep.eval(1);
            let t = &b[..cut];
            match guard(|| Package::parse(&mut &t[..])) {
                Ok(Ok(p)) => observe_one(rep, &mut local, "accepted-prefix", &p, json!({"input_hex": hex::encode(t)})),
                Ok(Err(_)) => *local.entry("rejected.prefix".into()).or_insert(0) += 1,
                Err(_) => *local.entry("panicked.prefix(judged by C04)".into()).or_insert(0) += 1,
            }
        }
    }
    rep.counts(&local);
    // built corpus, all four key types
    let n: u64 = ctx.tier.pick(300, 30_000);
    let base = ctx.work_dir("build");
    par_for(ctx.threads, n, 1, |i| {
        let mut rng = Rng::for_case(ctx.seed, "C16-built", i);
        let mut cfg = gen_cfg(&mut rng, &GenOpts { all_levels: false, max_files: 3, ..Default::default() });
        cfg.large_files = i % 9 == 8;
        let dir = base.join(format!("c{i}"));
        let mut local = BTreeMap::new();
        if let Ok(items) = built_items(&cfg, &dir, &keys, &mut rng, i % 2 == 0) {
            for it in &items {
                rep.eval(1);
                observe(rep, &mut local, "built", &it.pkg, json!({"label": it.label, "cfg": it.cfg}));
                // also through write + parse
                if let Ok(Ok(p)) = guard(|| Package::parse(&mut &it.bytes[..])) {
                    observe(rep, &mut local, "built-reparsed", &p, json!({"label": it.label, "cfg": it.cfg}));
                }
            }
        }
        rep.counts(&local);
        let _ = std::fs::remove_dir_all(&dir);
    });
    let _ = std::fs::remove_dir_all(&base);
    // hand-encoded
    let nh: u64 = ctx.tier.pick(5000, 3_000_000);
    let chunk = 100u64;
    par_for(ctx.threads, nh / chunk, 1, |c| {
        let mut rng = Rng::for_case(ctx.seed, "C16-hdr", c);
        let mut local = BTreeMap::new();
        for _ in 0..chunk {
            let b = rand_package(&mut rng);
            match guard(|| Package::parse(&mut &b[..])) {
                Ok(Ok(p)) => observe(rep, &mut local, "hand-encoded", &p, json!({"input_hex": hex::encode(&b)})),
                Ok(Err(_)) => *local.entry("rejected.hand-encoded".into()).or_insert(0) += 1,
                Err(_) => *local.entry("panicked.hand-encoded(judged by C04)".into()).or_insert(0) += 1,
            }
        }
        rep.eval(chunk);
        rep.counts(&local);
    });
    for r in 0..8 {
        if rep.get_count(&format!("sig_store_residue_mod8.{r}")) == 0 {
            rep.inconclusive(format!("signature store residue {r} mod 8 never observed"));
        }
    }
}

fn replay(_ctx: &Ctx, w: &serde_json::Value, rep: &Report) {
    if let Some(h) = w["input_hex"].as_str() {
        let b = hex::decode(h).unwrap_or_default();
        if let Ok(Ok(p)) = guard(|| Package::parse(&mut &b[..])) {
            let r = guard(|| judge_pkg(&p));
            println!("monitor: {:?}", r.as_ref().map_err(|p| p.message.clone()));
            if let Ok(Err((k, what))) = r {
                rep.violation(k, what, w.clone(), 0);
            }
        }
    } else {
        println!("witness is a builder configuration / asset label: {}", w);
    }
}
