//! C01 — parse then write reproduces the package byte for byte.

use super::CheckDef;
use crate::gen::build::*;
use crate::gen::corpus::*;
use crate::gen::hdr::*;
use crate::model::codec::*;
use crate::monitor::worker::*;
use crate::util::par::{guard, par_for};
use std::time::Duration;
use crate::util::report::{Ctx, Meta, Report};
use crate::util::rng::{hash_bytes, Rng};
use rpm::{Package, PackageMetadata};
use serde_json::json;
use std::collections::BTreeMap;

pub fn def() -> CheckDef {
    CheckDef { id: "C01", run, meta, dbg: false, replay: Some(replay) }
}

fn meta(_ctx: &Ctx) -> Meta {
    Meta {
        level: "exploration",
        rule: "inputs: the asset packages (also after sign/clear), packages emitted for seeded builder configurations (built/signed/cleared), hand-encoded well-formed packages from the harness's own encoder (all 10 types, unknown/duplicated/unsorted tags, aliases, trailing store bytes, non-UTF-8 strings, arbitrary lead, non-zero reserved bytes and padding, empty/truncated payload), and the accept filter over mutants (every single-bit flip of the metadata of small packages; thorough: also byte substitutions): every input the parser accepts is written back and compared with the input under a mask computed from the input by the independent decoder (4 reserved bytes of each intro and the signature padding are zero), for Package and PackageMetadata; the output is re-parsed (equal value) and re-written (identical bytes). distinct_nontrivial = distinct accepted inputs judged".into(),
        assumptions: vec!["independent decoder locates reserved bytes / padding (validated on the assets)".into()],
        floor_distinct: 200,
    }
}

fn region_of(bytes: &[u8], off: usize) -> String {
    match walk_package_opt(bytes, true) {
        Err(_) => "unknown".into(),
        Ok(p) => {
            if off < 96 {
                "lead".into()
            } else if off < p.sig.start + 3 {
                "sig-intro-magic".into()
            } else if off < p.sig.start + 16 {
                "sig-intro".into()
            } else if off < p.sig.store_start {
                "sig-index".into()
            } else if off < p.sig.end {
                "sig-store".into()
            } else if off < p.hdr.start {
                "sig-padding".into()
            } else if off < p.hdr.start + 3 {
                "hdr-intro-magic".into()
            } else if off < p.hdr.start + 16 {
                "hdr-intro".into()
            } else if off < p.hdr.store_start {
                "hdr-index".into()
            } else if off < p.hdr.end {
                "hdr-store".into()
            } else {
                "payload".into()
            }
        }
    }
}

fn first_diff(a: &[u8], b: &[u8]) -> Option<usize> {
    let n = a.len().min(b.len());
    for i in 0..n {
        if a[i] != b[i] {
            return Some(i);
        }
    }
    if a.len() != b.len() { Some(n) } else { None }
}

/// Returns Ok(true) if the input was accepted and judged, Ok(false) if rejected.
pub fn judge_input(bytes: &[u8]) -> Result<bool, (String, String)> {
    let pkg = match Package::parse(&mut &bytes[..]) {
        Ok(p) => p,
        Err(_) => return Ok(false),
    };
    let want = masked(bytes, false).map_err(|e| ("decoder-cannot-walk-accepted-input".to_string(), format!("the parser accepted an input the independent decoder cannot walk: {e}")))?;
    let mut out = Vec::new();
    pkg.write(&mut out).map_err(|e| ("write-fails".to_string(), format!("writing a parsed package fails: {e}")))?;
    if let Some(i) = first_diff(&out, &want) {
        let reg = if i >= out.len().min(want.len()) { "length".to_string() } else { region_of(bytes, i) };
        return Err((
            format!("rewrite-differs:{reg}"),
            format!("written bytes differ from the input at offset {i} ({reg}): wrote {:02x?}, input has {:02x?}; lengths {} vs {}", out.get(i), want.get(i), out.len(), want.len()),
        ));
    }
    // the same bytes must arrive in a sink that only implements write() and takes a few bytes per call
    for max in [3usize, 1000] {
        let mut pw = crate::util::PlainWriter { out: Vec::new(), max };
        pkg.write(&mut pw).map_err(|e| ("write-fails:plain-writer".to_string(), format!("writing into a plain {max}-bytes-per-call writer fails: {e}")))?;
        if pw.out != out {
            let i = first_diff(&pw.out, &out).unwrap_or(0);
            return Err(("rewrite-differs:plain-writer".into(), format!("a writer that takes {max} bytes per call receives {} bytes, a Vec receives {}; first difference at offset {i}", pw.out.len(), out.len())));
        }
    }
    // fixpoint
    let again = Package::parse(&mut &out[..]).map_err(|e| ("fixpoint:reparse-fails".to_string(), format!("written bytes do not parse: {e}")))?;
    if again.metadata != pkg.metadata || again.content != pkg.content {
        return Err(("fixpoint:value-differs".into(), "re-parsed value differs from the first parse result".into()));
    }
    let mut out2 = Vec::new();
    again.write(&mut out2).map_err(|e| ("fixpoint:rewrite-fails".to_string(), e.to_string()))?;
    if out2 != out {
        return Err(("fixpoint:bytes-differ".into(), "second write differs from the first".into()));
    }
    // metadata-only API
    match PackageMetadata::parse(&mut &bytes[..]) {
        Err(e) => return Err(("metadata-parse-rejects".into(), format!("Package::parse accepts but PackageMetadata::parse rejects: {e}"))),
        Ok(m) => {
            if m != pkg.metadata {
                return Err(("metadata-parse-differs".into(), "PackageMetadata::parse gives a different value than Package::parse".into()));
            }
            let mut mo = Vec::new();
            m.write(&mut mo).map_err(|e| ("metadata-write-fails".to_string(), e.to_string()))?;
            let mwant = masked(bytes, true).unwrap();
            if let Some(i) = first_diff(&mo, &mwant) {
                return Err((format!("metadata-rewrite-differs:{}", region_of(bytes, i)), format!("PackageMetadata::write differs from the input at offset {i}")));
            }
        }
    }
    Ok(true)
}

/// child-side judge: {"accepted": bool, "violation": [key, what] | null}
pub fn judge_c01(bytes: &[u8]) -> serde_json::Value {
    match judge_input(bytes) {
        Ok(acc) => json!({"accepted": acc, "violation": null}),
        Err((k, w)) => json!({"accepted": true, "violation": [k, w]}),
    }
}

/// a batch of inputs judged in worker children of both profiles
struct Batch<'a> {
    ctx: &'a Ctx,
    rep: &'a Report,
    cases: Vec<Case>,
    info: Vec<(String, serde_json::Value)>,
    bytes: usize,
}

impl Batch<'_> {
    fn push(&mut self, source: &str, bytes: Vec<u8>, extra: serde_json::Value) {
        let id = self.cases.len() as u64;
        self.bytes += bytes.len();
        self.info.push((source.to_string(), extra));
        // memory is judged by C04; here a loose budget only contains runaway inputs
        let budget = (256u64 << 20) + 64 * bytes.len() as u64;
        self.cases.push(Case { id, budget, bytes });
        if self.bytes > (512 << 20) || self.cases.len() >= 300_000 {
            self.flush();
        }
    }
    fn flush(&mut self) {
        if self.cases.is_empty() {
            return;
        }
        let rep = self.rep;
        for (profile, bin) in worker_binaries() {
            // the verifdbg pass takes a third of the cases (it mainly adds overflow / debug assertions)
            let subset: Vec<Case> = self.cases.iter().filter(|c| profile == "release" || c.id % 3 == 0).map(|c| Case { id: c.id, budget: c.budget, bytes: c.bytes.clone() }).collect();
            let outs = run_cases(&bin, "c01", &subset, self.ctx.threads, Duration::from_secs(30));
            let mut local: BTreeMap<String, u64> = BTreeMap::new();
            for (id, out) in outs {
                rep.eval(1);
                let (source, extra) = &self.info[id as usize];
                let bytes = &self.cases[id as usize].bytes;
                match out {
                    Outcome::Done { value, .. } => {
                        if value["accepted"].as_bool() == Some(true) {
                            *local.entry(format!("{profile}.accepted.{source}")).or_insert(0) += 1;
                            rep.nontrivial(hash_bytes(bytes));
                        } else {
                            *local.entry(format!("{profile}.rejected.{source}")).or_insert(0) += 1;
                        }
                        if let Some(v) = value["violation"].as_array() {
                            let (k, w) = (v[0].as_str().unwrap_or("?"), v[1].as_str().unwrap_or("?"));
                            rep.violation(k, format!("[{source}, {profile}] {w}"), json!({"source": source, "input_hex": hex::encode(bytes), "info": extra}), bytes.len() as u64);
                        }
                    }
                    // crashes on untrusted bytes belong to C04; they are counted here, not judged
                    other => *local.entry(format!("{profile}.crashed.{source}(judged by C04).{}", other.site().split(':').next().unwrap_or(""))).or_insert(0) += 1,
                }
            }
            rep.counts(&local);
        }
        self.cases.clear();
        self.info.clear();
        self.bytes = 0;
    }
}

pub fn small_packages(ctx: &Ctx, keys: &[Key]) -> Vec<(String, Vec<u8>)> {
    let mut v = Vec::new();
    let dir = ctx.work_dir("small");
    let mut cfg = BuildCfg { name: "small".into(), version: "1.0".into(), license: "MIT".into(), arch: "noarch".into(), summary: "s".into(), compression: Some(("none".into(), 0)), source_date: Some(1_600_000_000), ..Default::default() };
    if let Ok(p) = build(&cfg, &dir) {
        v.push(("built-no-files".to_string(), pkg_bytes(&p).unwrap()));
    }
    cfg.files.push(FileCfg { dest: "/etc/small.conf".into(), content_kind: "text".into(), size: 33, content_seed: 1, mode: Some(0o100644), source_perm: 0o644, user: None, group: None, flags: vec!["config".into()], caps: None, symlink: None, mtime: 1_500_000_000, verify: None });
    cfg.files.push(FileCfg { dest: "/usr/bin/small".into(), content_kind: "noise".into(), size: 5, content_seed: 2, mode: None, source_perm: 0o755, user: Some("bob".into()), group: None, flags: vec![], caps: Some("cap_chown=e".into()), symlink: None, mtime: 1_500_000_000, verify: None });
    if let Ok(p) = build(&cfg, &dir) {
        v.push(("built-two-files".to_string(), pkg_bytes(&p).unwrap()));
    }
    if let Some(k) = keys.get(2) {
        if let Ok(p) = build_signed(&cfg, &dir, &k.signer) {
            v.push(("built-signed-ed25519".to_string(), pkg_bytes(&p).unwrap()));
        }
    }
    let _ = std::fs::remove_dir_all(&dir);
    v
}

fn run(ctx: &Ctx, rep: &Report) {
    let keys = match load_keys(&ctx.repo_dir) {
        Ok(k) => k,
        Err(e) => {
            rep.inconclusive(format!("cannot load test keys: {e}"));
            return;
        }
    };
    if worker_binaries().len() < 2 {
        rep.inconclusive("verifdbg worker binary not available");
    }
    let mut b = Batch { ctx, rep, cases: Vec::new(), info: Vec::new(), bytes: 0 };
    // 1. assets and asset-derived packages
    for it in asset_items(&ctx.repo_dir, &keys).into_iter().flatten() {
        if rep.sample_count() < 2 {
            rep.sample(json!({"source": "asset", "label": it.label, "len": it.bytes.len(), "head_hex": crate::util::hex_trunc(&it.bytes, 48)}));
        }
        b.push("asset", it.bytes, json!({"label": it.label}));
    }
    for rel in ASSETS {
        if let Ok(bytes) = std::fs::read(ctx.asset(rel)) {
            b.push("asset-file", bytes, json!({"file": rel}));
        }
    }
    // 2. built corpus (built in this process, judged in the workers)
    let n: u64 = ctx.tier.pick(300, 12_000);
    let base = ctx.work_dir("build");
    let built: std::sync::Mutex<Vec<(Vec<u8>, serde_json::Value)>> = std::sync::Mutex::new(Vec::new());
    par_for(ctx.threads, n, 1, |i| {
        let mut rng = Rng::for_case(ctx.seed, "C01-built", i);
        let mut cfg = gen_cfg(&mut rng, &GenOpts { all_levels: false, ..Default::default() });
        cfg.large_files = i % 7 == 6;
        if i % 60 == 0 {
            // a payload well above a MiB (the file-based API below is applied to it: i % 3 == 0)
            cfg.compression = Some(([("none", 0i64), ("zstd", 1), ("gzip", 1)][(i / 60 % 3) as usize].0.into(), 1));
            cfg.files.push(FileCfg { dest: format!("/opt/big/blob{i}.bin"), content_kind: "noise".into(), size: 1_200_000 + rng.usize(400_000), content_seed: rng.next(), mode: Some(0o100644), source_perm: 0o644, user: None, group: None, flags: vec![], caps: None, symlink: None, mtime: 1_500_000_000, verify: None });
        }
        let dir = base.join(format!("c{i}"));
        if let Ok(items) = built_items(&cfg, &dir, &keys, &mut rng, i % 4 == 0) {
            // the file-based API must agree with the in-memory one (write_file / open)
            if i % 3 == 0 {
                for (k, it) in items.iter().enumerate() {
                    let path = dir.join(format!("out{k}.rpm"));
                    let r = guard(|| -> Result<Option<String>, rpm::Error> {
                        // stale neighbours that a temporary-file scheme might pick up
                        for decoy in [format!("out{k}.rpm.part"), format!("out{k}.rpm.tmp"), format!(".out{k}.rpm.tmp"), format!("out{k}.rpm~"), format!("out{k}.part")] {
                            let _ = std::fs::write(dir.join(decoy), vec![0xeeu8; it.bytes.len() + 4096]);
                        }
                        it.pkg.write_file(&path)?;
                        let on_disk = std::fs::read(&path)?;
                        if on_disk != it.bytes {
                            return Ok(Some("write_file() produced other bytes than write()".into()));
                        }
                        let opened = Package::open(&path)?;
                        if opened.metadata != it.pkg.metadata || opened.content != it.pkg.content {
                            return Ok(Some("Package::open() of the written file differs from the package".into()));
                        }
                        if PackageMetadata::open(&path)? != it.pkg.metadata {
                            return Ok(Some("PackageMetadata::open() of the written file differs from the package".into()));
                        }
                        // the same bytes through a path that is not a regular file (a pipe behind /proc/self/fd)
                        if let Some(piped) = crate::util::open_through_pipe(&it.bytes) {
                            let piped = piped?;
                            if piped.metadata != it.pkg.metadata || piped.content != it.pkg.content {
                                return Ok(Some(format!("Package::open() on a pipe gives a payload of {} bytes, the package has {}", piped.content.len(), it.pkg.content.len())));
                            }
                        }
                        Ok(None)
                    });
                    rep.eval(1);
                    rep.count("file_api_roundtrips", 1);
                    match r {
                        Ok(Ok(None)) => {}
                        Ok(Ok(Some(what))) => rep.violation("file-api-differs", format!("[{}] {what}", it.label), json!({"label": it.label, "cfg": it.cfg}), 0),
                        Ok(Err(e)) => rep.violation(format!("file-api-fails:{}", crate::util::par::normalize_msg(&e.to_string())), format!("[{}] write_file/open fails: {e}", it.label), json!({"label": it.label, "cfg": it.cfg}), 0),
                        Err(p) => rep.violation(format!("panic:file-api:{}", p.site()), p.message, json!({"label": it.label, "cfg": it.cfg}), 0),
                    }
                }
            }
            let mut g = built.lock().unwrap();
            for it in items {
                g.push((it.bytes, json!({"label": it.label, "cfg": it.cfg})));
            }
        } else {
            rep.count("build_failed(judged elsewhere)", 1);
        }
        let _ = std::fs::remove_dir_all(&dir);
    });
    let _ = std::fs::remove_dir_all(&base);
    for (bytes, info) in built.into_inner().unwrap() {
        b.push("built", bytes, info);
    }
    // 3. hand-encoded well-formed packages
    let nh: u64 = ctx.tier.pick(4000, 2_000_000);
    let mut rng = Rng::for_case(ctx.seed, "C01-hdr", 0);
    for k in 0..nh {
        let bytes = rand_package(&mut rng);
        if k < 2 {
            rep.sample(json!({"source": "hand-encoded", "len": bytes.len(), "input_hex": crate::util::hex_trunc(&bytes, 200)}));
        }
        b.push("hand-encoded", bytes, json!({"k": k}));
    }
    // 4. accept filter over mutants of small packages
    let mut targets: Vec<(String, Vec<u8>)> = small_packages(ctx, &keys);
    if let Ok(bytes) = std::fs::read(ctx.asset("test_assets/fixture_packages/rpm-empty-0-0.x86_64.rpm")) {
        targets.push(("asset-rpm-empty".into(), bytes));
    }
    let mut rng0 = Rng::for_case(ctx.seed, "C01-hdr-base", 0);
    for i in 0..3 {
        targets.push((format!("hand-encoded-{i}"), rand_package(&mut rng0)));
    }
    for (label, base_bytes) in &targets {
        let meta_len = match walk_package_opt(base_bytes, true) {
            Ok(p) => p.payload_start,
            Err(_) => continue,
        };
        // bytes removed or inserted at the seams between the segments (lead | signature header |
        // padding | main header | payload): whatever the parser still accepts must come back unchanged
        if let Ok(p) = walk_package_opt(base_bytes, true) {
            let sig_end = p.sig.end;
            for seam in [96usize, sig_end, p.hdr.start, p.hdr.end] {
                for k in 1..=8usize {
                    if seam + k <= base_bytes.len() {
                        let mut m = base_bytes.clone();
                        m.drain(seam..seam + k);
                        b.push("seam-deletion", m, json!({"base": label, "seam": seam, "removed_after": k}));
                    }
                    if seam >= k {
                        let mut m = base_bytes.clone();
                        m.drain(seam - k..seam);
                        b.push("seam-deletion", m, json!({"base": label, "seam": seam, "removed_before": k}));
                    }
                    let mut m = base_bytes.clone();
                    for _ in 0..k {
                        m.insert(seam, 0);
                    }
                    b.push("seam-insertion", m, json!({"base": label, "seam": seam, "inserted": k}));
                }
            }
        }
        let limit = meta_len.min(ctx.tier.pick(3000, 20_000));
        for byte in 0..limit {
            for bit in 0..8u8 {
                let mut m = base_bytes.clone();
                m[byte] ^= 1 << bit;
                b.push("bitflip-mutant", m, json!({"base": label, "byte": byte, "bit": bit}));
            }
            if ctx.tier.pick(false, true) {
                let orig = base_bytes[byte];
                for v in [0u8, 0xff, orig.wrapping_add(1), orig.wrapping_sub(1)] {
                    if v != orig && (v ^ orig).count_ones() != 1 {
                        let mut m = base_bytes.clone();
                        m[byte] = v;
                        b.push("bytesub-mutant", m, json!({"base": label, "byte": byte, "value": v}));
                    }
                }
            }
        }
    }
    b.flush();
}

fn replay(_ctx: &Ctx, w: &serde_json::Value, rep: &Report) {
    let bytes = hex::decode(w["input_hex"].as_str().unwrap_or("")).unwrap_or_default();
    let r = guard(|| judge_input(&bytes));
    println!("monitor: input of {} bytes -> {:?}", bytes.len(), r.as_ref().map_err(|p| p.message.clone()));
    match r {
        Ok(Err((k, what))) => rep.violation(k, what, w.clone(), 0),
        Err(p) => rep.violation(format!("panic:{}", p.site()), p.message, w.clone(), 0),
        _ => {}
    }
}
