//! C11 — builds with a source date are reproducible and clamped.

use super::CheckDef;
use crate::gen::build::*;
use crate::model::codec::*;
use crate::util::par::{guard, par_for};
use crate::util::report::{Ctx, Meta, Report};
use crate::util::rng::Rng;
use crate::util::sha256_hex;
use serde_json::json;
use std::collections::{BTreeMap, BTreeSet};
use std::path::Path;

pub fn def() -> CheckDef {
    CheckDef { id: "C11", run, meta, dbg: false, replay: Some(replay) }
}

fn meta(ctx: &Ctx) -> Meta {
    Meta {
        level: "exploration",
        rule: format!(
            "seeded builder configurations with a source date, biased to 2-6 distinct non-root owners and groups and file mtimes on both sides of the source date, each built {} times in this process and in {} freshly started processes (different hash seeds by construction, different TZ, working directory and environment; for a quarter of the configurations and all gzip ones the last build starts >= 1.1 s after the first); unsigned and signed with Ed25519 / ECDSA-P256 / RSA-4096 (deterministic schemes). Oracle: the set of distinct output byte strings per configuration must have size 1; BUILDTIME, every FILEMTIMES item, the c_mtime of every entry of the decompressed archive, the MTIME field of a gzip payload and the OpenPGP signature creation time (read with the pgp crate) must be <= the source date. distinct_nontrivial = distinct configurations whose repeated builds were compared",
            ctx.tier.pick(5, 6),
            ctx.tier.pick(3, 4)
        ),
        assumptions: vec!["source files are not modified between builds; Ed25519 / RFC6979 ECDSA / PKCS#1 v1.5 RSA signatures are deterministic (measured)".into()],
        floor_distinct: 20,
    }
}

/// `rpmverif buildhash <cfg.json> <srcdir> <out> [keyname]`: build once in a fresh process
pub fn buildhash_main(args: &[String]) -> i32 {
    let (Some(cfgp), Some(src), Some(out)) = (args.first(), args.get(1), args.get(2)) else { return 64 };
    let Ok(cfg) = std::fs::read(cfgp).map_err(|_| ()).and_then(|b| serde_json::from_slice::<BuildCfg>(&b).map_err(|_| ())) else { return 65 };
    let repo = std::env::var("VERIF_REPO").unwrap_or_else(|_| "/repo".into());
    let res = match args.get(3) {
        Some(kn) => {
            let Ok(keys) = load_keys(Path::new(&repo)) else { return 66 };
            let Some(k) = keys.iter().find(|k| k.name == kn) else { return 66 };
            build_existing(&cfg, Path::new(src), Some(k))
        }
        None => build_existing(&cfg, Path::new(src), None),
    };
    let line = match res {
        Ok(b) => format!("ok {} {}", sha256_hex(&b), b.len()),
        Err(e) => format!("err {e}"),
    };
    if std::fs::write(out, line).is_err() {
        return 67;
    }
    0
}

/// build from source files that already exist in `src` (never rewrites them)
fn build_existing(cfg: &BuildCfg, src: &Path, key: Option<&Key>) -> Result<Vec<u8>, String> {
    let sources: Vec<std::path::PathBuf> = (0..cfg.files.len()).map(|i| src.join(format!("src{i}"))).collect();
    let b = builder_for(cfg, &sources).map_err(|e| e.to_string())?;
    rpm::verif_hooks::set_force_large_files(cfg.large_files);
    let pkg = match key {
        Some(k) => b.build_and_sign(&k.signer),
        None => b.build(),
    }
    .map_err(|e| e.to_string())?;
    rpm::verif_hooks::set_force_large_files(false);
    pkg_bytes(&pkg).map_err(|e| e.to_string())
}

fn timestamps_ok(bytes: &[u8], sd: u32, signed: bool) -> Vec<(String, String)> {
    let mut v = Vec::new();
    let Ok(p) = walk_package(bytes) else {
        v.push(("unwalkable".to_string(), "built package does not walk".to_string()));
        return v;
    };
    match p.hdr.get_u32s(bytes, tag::BUILDTIME) {
        Some(t) if !t.is_empty() => {
            if t[0] > sd {
                v.push(("build-time-after-source-date".to_string(), format!("BUILDTIME {} is later than the source date {sd}", t[0])));
            }
        }
        _ => {}
    }
    if let Some(m) = p.hdr.get_u32s(bytes, tag::FILEMTIMES) {
        if let Some(bad) = m.iter().find(|t| **t > sd) {
            v.push(("file-mtime-after-source-date".to_string(), format!("a file modification time {bad} is later than the source date {sd}")));
        }
    }
    // the archive carries its own copy of every file time (c_mtime of each newc entry)
    let comp = p.hdr.get_str(bytes, tag::PAYLOADCOMPRESSOR).map(|c| String::from_utf8_lossy(&c).into_owned());
    // a gzip member header has a time field of its own (MTIME, bytes 4..8, little endian)
    let pl = &bytes[p.payload_start..];
    if pl.len() >= 10 && pl[0] == 0x1f && pl[1] == 0x8b {
        let t = u32::from_le_bytes([pl[4], pl[5], pl[6], pl[7]]);
        if t > sd {
            v.push(("payload-gzip-mtime-after-source-date".to_string(), format!("the gzip header of the payload carries the time {t} which is later than the source date {sd}")));
        }
    }
    match crate::model::cpio::decompress(comp.as_deref(), &bytes[p.payload_start..]) {
        Ok(archive) => {
            let sizes = crate::model::codec::decode_files(bytes, &p.hdr).map(|f| f.sizes).unwrap_or_default();
            match crate::model::cpio::decode(&archive, &|i| sizes.get(i as usize).copied()) {
                Ok((entries, _)) => {
                    if let Some(bad) = entries.iter().find(|e| e.mtime > sd) {
                        v.push(("payload-entry-time-after-source-date".to_string(), format!("the archive entry {:?} carries the time {} which is later than the source date {sd}", String::from_utf8_lossy(&bad.name), bad.mtime)));
                    }
                }
                Err(e) => v.push(("payload-undecodable".to_string(), format!("built payload does not decode: {e}"))),
            }
        }
        Err(e) => v.push(("payload-undecodable".to_string(), format!("built payload does not decompress: {e}"))),
    }
    if signed {
        use pgp::packet::{Packet, PacketParser};
        let mut sigs: Vec<Vec<u8>> = Vec::new();
        for t in [tag::SIG_RSA, tag::SIG_DSA, tag::SIG_PGP] {
            if let Some(Ok(Val::Bin(b))) = p.sig.get(bytes, t) {
                sigs.push(b);
            }
        }
        if let Some(list) = p.sig.get_strs(bytes, tag::SIG_OPENPGP) {
            use base64::Engine;
            for s in list {
                if let Ok(b) = base64::engine::general_purpose::STANDARD.decode(&s) {
                    sigs.push(b);
                }
            }
        }
        if sigs.is_empty() {
            v.push(("signed-package-without-signature".to_string(), "a signed build carries no signature".to_string()));
        }
        for s in sigs {
            for pk in PacketParser::new(&s[..]).flatten() {
                if let Packet::Signature(sig) = pk {
                    if let Some(c) = sig.created() {
                        if c.timestamp() > sd as i64 {
                            v.push(("signature-time-after-source-date".to_string(), format!("signature creation time {} is later than the source date {sd}", c.timestamp())));
                        }
                    }
                }
            }
        }
    }
    v
}

fn run(ctx: &Ctx, rep: &Report) {
    let keys = match load_keys(&ctx.repo_dir) {
        Ok(k) => k,
        Err(e) => {
            rep.inconclusive(format!("cannot load test keys: {e}"));
            return;
        }
    };
    let exe = std::env::current_exe().unwrap();
    let n: u64 = ctx.tier.pick(120, 3000);
    let reps_in = ctx.tier.pick(5, 6);
    let reps_proc = ctx.tier.pick(3, 4);
    let base = ctx.work_dir("builds");
    par_for(ctx.threads, n, 1, |i| {
        let mut rng = Rng::for_case(ctx.seed, "C11", i);
        let mut cfg = gen_cfg(&mut rng, &GenOpts { max_files: 8, with_source_date: Some(true), multi_owner_bias: true, all_levels: false, ..Default::default() });
        // at least a few files with distinct non-root owners in most configurations
        if i % 5 != 4 {
            while cfg.files.len() < 4 {
                let k = cfg.files.len();
                cfg.files.push(FileCfg { dest: format!("/srv/c11/f{k}"), content_kind: "text".into(), size: 10 + k, content_seed: k as u64, mode: Some(0o100644), source_perm: 0o644, user: None, group: None, flags: vec![], caps: None, symlink: None, mtime: 1_400_000_000 + (k as i64) * 200_000_000, verify: None });
            }
            let owners = ["alice", "bob", "www-data", "svc_1", "nobody", "carol"];
            for (k, f) in cfg.files.iter_mut().enumerate() {
                f.user = Some(owners[(k + rng.usize(2)) % owners.len()].to_string());
                f.group = Some(owners[(k * 2 + 1) % owners.len()].to_string());
            }
        }
        let sd = cfg.source_date.unwrap();
        let key = match i % 4 {
            1 => Some(&keys[2]),
            2 => Some(&keys[3]),
            3 if i % 8 == 3 => Some(&keys[0]),
            _ => None,
        };
        let dir = base.join(format!("c{i}"));
        let src = dir.join("src");
        materialize_sources(&cfg, &src);
        let w = || json!({"cfg": cfg, "signed_with": key.map(|k| k.name)});
        let mut outputs: BTreeMap<String, String> = BTreeMap::new(); // hash -> where
        let mut first: Option<Vec<u8>> = None;
        let mut local: BTreeMap<String, u64> = BTreeMap::new();
        let t_first = std::time::Instant::now();
        for r in 0..reps_in {
            rep.eval(1);
            // odd repetitions run on a freshly spawned thread (thread-local state must not matter)
            let built = if r % 2 == 1 {
                std::thread::scope(|sc| sc.spawn(|| guard(|| build_existing(&cfg, &src, key))).join()).unwrap_or_else(|_| Ok(Err("builder thread died".to_string())))
            } else {
                guard(|| build_existing(&cfg, &src, key))
            };
            match built {
                Ok(Ok(b)) => {
                    outputs.entry(sha256_hex(&b)).or_insert(format!("in-process build #{r}"));
                    if first.is_none() {
                        for (k, what) in timestamps_ok(&b, sd, key.is_some()) {
                            rep.violation(k, what, w(), cfg.files.len() as u64);
                        }
                        // changelog times are the caller's data, but an entry that was given a time not
                        // later than the source date must not come out later than it
                        if let Ok(p) = walk_package(&b) {
                            if let Some(times) = p.hdr.get_u32s(&b, tag::CHANGELOGTIME) {
                                let given_max_le_sd = cfg.changelog.iter().all(|c| c.2 <= sd);
                                if given_max_le_sd {
                                    if let Some(bad) = times.iter().find(|t| **t > sd) {
                                        rep.violation("changelog-time-after-source-date", format!("a changelog time {bad} is later than the source date {sd} although every entry was given a time <= {sd}"), w(), cfg.files.len() as u64);
                                    }
                                }
                            }
                        }
                        first = Some(b);
                    }
                    *local.entry("builds.in_process".into()).or_insert(0) += 1;
                }
                Ok(Err(e)) => {
                    rep.violation(format!("build-error:{}", crate::util::par::normalize_msg(&e)), format!("a valid configuration does not build: {e}"), w(), 0);
                    break;
                }
                Err(p) => {
                    rep.violation(format!("panic:build:{}", p.site()), p.message, w(), 0);
                    break;
                }
            }
        }
        // fresh processes
        let cfgp = dir.join("cfg.json");
        std::fs::write(&cfgp, serde_json::to_vec(&cfg).unwrap()).unwrap();
        for r in 0..reps_proc {
            rep.eval(1);
            // the wall clock must not leak into the output: for a quarter of the configurations (and
            // every gzip one) the last build starts at least 1.1 s after the first
            let is_gzip = cfg.compression.as_ref().map(|c| c.0 == "gzip").unwrap_or(false);
            if r + 1 == reps_proc && (i % 4 == 0 || is_gzip) {
                let el = t_first.elapsed();
                if el < std::time::Duration::from_millis(1100) {
                    std::thread::sleep(std::time::Duration::from_millis(1100) - el);
                }
                *local.entry("configs.last_build_over_1s_after_first".into()).or_insert(0) += 1;
            }
            let out = dir.join(format!("out{r}"));
            let cwd = [Path::new("/"), dir.as_path(), Path::new("/tmp"), src.as_path()][r % 4];
            let tz = ["UTC", "Pacific/Kiritimati", "America/Los_Angeles", "Asia/Kolkata"][r % 4];
            let mut cmd = std::process::Command::new(&exe);
            cmd.arg("buildhash").arg(&cfgp).arg(&src).arg(&out);
            if let Some(k) = key {
                cmd.arg(k.name);
            }
            cmd.current_dir(cwd)
                .env("TZ", tz)
                .env("LANG", ["C", "de_DE.UTF-8", "ja_JP.UTF-8", "tr_TR"][r % 4])
                .env("LC_ALL", ["C", "de_DE.UTF-8", "ja_JP.UTF-8", "tr_TR"][r % 4])
                .env("HOME", ["/root", "/tmp", "/nonexistent", "/"][r % 4])
                .env("USER", ["root", "builder", "nobody", ""][r % 4])
                .env("LOGNAME", ["root", "builder", "nobody", ""][r % 4])
                .env("HOSTNAME", ["host-a", "host-b.example.org", "", "localhost"][r % 4])
                .env("TMPDIR", ["/tmp", "/var/tmp", "/tmp", "/dev/shm"][r % 4])
                .env("SOURCE_DATE_EPOCH", ["0", "1", "4000000000", "x"][r % 4])
                .env("C11_NOISE", format!("{}", rng.next())).stdout(std::process::Stdio::null()).stderr(std::process::Stdio::null());
            match cmd.status() {
                Ok(st) if st.success() => match std::fs::read_to_string(&out) {
                    Ok(line) if line.starts_with("ok ") => {
                        let h = line.split(' ').nth(1).unwrap_or("").to_string();
                        outputs.entry(h).or_insert(format!("fresh process #{r} (TZ={tz}, cwd={})", cwd.display()));
                        *local.entry("builds.fresh_process".into()).or_insert(0) += 1;
                    }
                    other => rep.inconclusive(format!("fresh-process build reported {other:?}")),
                },
                other => rep.inconclusive(format!("fresh-process build did not run: {other:?}")),
            }
        }
        if outputs.len() > 1 {
            let owners: BTreeSet<&String> = cfg.files.iter().filter_map(|f| f.user.as_ref()).chain(cfg.files.iter().filter_map(|f| f.group.as_ref())).filter(|u| *u != "root").collect();
            rep.violation(
                format!("not-reproducible:{}", if key.is_some() { "signed" } else { "unsigned" }),
                format!("{} distinct outputs from one configuration ({} distinct non-root owners/groups): {:?}", outputs.len(), owners.len(), outputs.values().collect::<Vec<_>>()),
                w(),
                cfg.files.len() as u64,
            );
        }
        if !outputs.is_empty() {
            rep.nontrivial(crate::checks::c06::cfg_hash(&cfg));
            *local.entry(format!("configs.{}", key.map(|k| k.name).unwrap_or("unsigned"))).or_insert(0) += 1;
            let owners: BTreeSet<&String> = cfg.files.iter().filter_map(|f| f.user.as_ref()).filter(|u| *u != "root").collect();
            if owners.len() >= 2 {
                *local.entry("configs.with_2+_distinct_non_root_users".into()).or_insert(0) += 1;
            }
            if cfg.files.iter().any(|f| f.mtime as u32 > sd) && cfg.files.iter().any(|f| (f.mtime as u32) < sd) {
                *local.entry("configs.mtimes_on_both_sides_of_source_date".into()).or_insert(0) += 1;
            }
        }
        rep.counts(&local);
        if i < 2 {
            rep.sample(json!({"cfg": cfg, "signed_with": key.map(|k| k.name), "distinct_outputs": outputs.len()}));
        }
        let _ = std::fs::remove_dir_all(&dir);
    });
    let _ = std::fs::remove_dir_all(&base);
    if rep.get_count("configs.with_2+_distinct_non_root_users") < 10 {
        rep.inconclusive("fewer than 10 configurations with several distinct non-root users");
    }
}

fn replay(ctx: &Ctx, w: &serde_json::Value, rep: &Report) {
    let Ok(cfg) = serde_json::from_value::<BuildCfg>(w["cfg"].clone()) else { return };
    let keys = load_keys(&ctx.repo_dir).unwrap_or_default();
    let key = w["signed_with"].as_str().and_then(|n| keys.iter().find(|k| k.name == n));
    let dir = ctx.work_dir("replay");
    let src = dir.join("src");
    materialize_sources(&cfg, &src);
    let mut hs = BTreeSet::new();
    for _ in 0..8 {
        if let Ok(b) = build_existing(&cfg, &src, key) {
            hs.insert(sha256_hex(&b));
        }
    }
    println!("monitor: 8 in-process builds gave {} distinct outputs", hs.len());
    if hs.len() > 1 {
        rep.violation("not-reproducible", format!("{} distinct outputs", hs.len()), w.clone(), 0);
    }
    let _ = std::fs::remove_dir_all(&dir);
}
