//! C09 — emitted packages satisfy rpm's structural rules (independent strict validator).

use super::CheckDef;
use crate::gen::build::*;
use crate::gen::corpus::*;
use crate::model::strict::{validate, Origin};
use crate::util::par::{guard, par_for};
use crate::util::report::{Ctx, Meta, Report};
use crate::util::rng::{hash_bytes, Rng};
use serde_json::json;
use std::collections::BTreeMap;

pub fn def() -> CheckDef {
    CheckDef { id: "C09", run, meta, dbg: false, replay: Some(replay) }
}

fn meta(_ctx: &Ctx) -> Meta {
    Meta {
        level: "exploration",
        rule: "every package emitted for seeded random builder configurations (all compression types and levels, 0..6 files, caps, forced large-file mode for a share of them) after build, sign, clear and re-sign, and every asset package after sign / clear, is written out and judged by an independent validator (lead, intro sizes, region tag and trailer, strictly ascending tags >= 100, legal types, alignment, in-range non-overlapping data, non-zero length, terminated strings, zero padding to 8, payload magic + decompression with the named algorithm, cpio entries in header order with matching names/sizes/modes, 4-byte alignment, trailer, rpmlib() features). The validator must first accept the unmodified asset packages (rpmbuild output). distinct_nontrivial = distinct emitted byte strings validated".into(),
        assumptions: vec!["validator rules follow rpm's hdrblobVerify* logic; relaxed payload-order rule for foreign (rpmbuild) packages".into()],
        floor_distinct: 50,
    }
}

fn judge_item(rep: &Report, local: &mut BTreeMap<String, u64>, it: &Item) {
    let res = guard(|| validate(&it.bytes, it.origin));
    let stage = it.label.split('(').next().unwrap_or("").to_string();
    *local.entry(format!("validated.{}", if it.origin == Origin::Builder { stage.as_str() } else { "asset-derived" })).or_insert(0) += 1;
    match res {
        Err(p) => rep.inconclusive(format!("validator panicked on {}: {}", it.label, p.message)),
        Ok(findings) => {
            rep.nontrivial(hash_bytes(&it.bytes));
            for fd in findings {
                let comp = it.cfg.as_ref().and_then(|c| c.compression.as_ref().map(|c| c.0.clone())).unwrap_or_default();
                // the class key names rule + emitting operation (+ compressor for the rpmlib rules)
                let key = if fd.rule.starts_with("rpmlib.") || fd.rule.starts_with("payload.") {
                    format!("{}:{}", fd.rule, if it.origin == Origin::Builder { "builder" } else { "signer" })
                } else {
                    format!("{}:{}{}", fd.rule, if it.origin == Origin::Builder { "builder" } else { "signer" }, if it.cfg.as_ref().map(|c| c.large_files).unwrap_or(false) { ":large-files" } else { "" })
                };
                let _ = comp;
                rep.violation(
                    key,
                    format!("{}: {}", it.label, fd.msg),
                    json!({"label": it.label, "cfg": it.cfg, "package_hex_prefix": crate::util::hex_trunc(&it.bytes, 256), "package_len": it.bytes.len()}),
                    it.bytes.len() as u64,
                );
            }
        }
    }
}

fn run(ctx: &Ctx, rep: &Report) {
    let keys = match load_keys(&ctx.repo_dir) {
        Ok(k) => k,
        Err(e) => {
            rep.inconclusive(format!("cannot load test keys: {e}"));
            return;
        }
    };
    // 0. the validator itself must accept rpmbuild's output
    let mut asset_ok = 0;
    for rel in ASSETS {
        if let Ok(bytes) = std::fs::read(ctx.asset(rel)) {
            let fnd = validate(&bytes, Origin::Foreign);
            if fnd.is_empty() {
                asset_ok += 1;
            } else {
                rep.inconclusive(format!("validator rejects the unmodified rpmbuild package {rel}: {} ({})", fnd[0].rule, fnd[0].msg));
            }
        }
    }
    rep.count("validator_accepts_unmodified_assets", asset_ok);
    if asset_ok < 4 {
        rep.inconclusive("validator could not be validated on the asset packages");
        return;
    }
    // 1. sign / clear histories applied to the assets
    let mut local = BTreeMap::new();
    for it in asset_items(&ctx.repo_dir, &keys) {
        match it {
            Ok(it) => {
                rep.eval(1);
                judge_item(rep, &mut local, &it);
            }
            Err(e) => rep.note(format!("asset pipeline: {e}")),
        }
    }
    rep.counts(&local);
    // 2. built packages
    let n: u64 = ctx.tier.pick(150, 20_000);
    let base = ctx.work_dir("build");
    par_for(ctx.threads, n, 1, |i| {
        let mut rng = Rng::for_case(ctx.seed, "C09", i);
        let mut cfg = gen_cfg(&mut rng, &GenOpts { big_percent: 1, big_bytes: (100_000, 400_000), ..Default::default() });
        cfg.large_files = i % 5 == 4;
        // the first configurations walk through every (compression type, level) pair once
        let ladder = crate::checks::c08::ladder();
        if (i as usize) < ladder.len() {
            cfg.compression = ladder[i as usize].clone();
        }
        let dir = base.join(format!("c{i}"));
        let mut local = BTreeMap::new();
        match built_items(&cfg, &dir, &keys, &mut rng, i % 3 == 0) {
            Ok(items) => {
                for it in &items {
                    rep.eval(1);
                    judge_item(rep, &mut local, it);
                }
                if cfg.large_files {
                    *local.entry("large_file_configs".into()).or_insert(0) += 1;
                }
                *local.entry(format!("compressor.{}", cfg.compression.as_ref().map(|c| c.0.as_str()).unwrap_or("default"))).or_insert(0) += 1;
                if i < 2 {
                    rep.sample(json!({"cfg": cfg, "emitted": items.iter().map(|it| json!({"label": it.label, "bytes": it.bytes.len()})).collect::<Vec<_>>()}));
                }
            }
            Err(CorpusErr::Panic(site, msg)) => rep.violation(format!("panic:{site}"), format!("emitting operation panics: {msg}"), json!({"cfg": cfg}), 0),
            Err(CorpusErr::Err(op, msg)) => rep.violation(format!("emit-error:{op}:{}", crate::util::par::normalize_msg(&msg)), format!("{op} fails on a valid configuration: {msg}"), json!({"cfg": cfg}), 0),
        }
        rep.counts(&local);
        let _ = std::fs::remove_dir_all(&dir);
    });
    let hooks = rpm::verif_hooks::snapshot();
    rep.count("hook.builder.stripped_entry_written", hooks.get("builder.stripped_entry_written").copied().unwrap_or(0));
    if hooks.get("builder.stripped_entry_written").copied().unwrap_or(0) == 0 {
        rep.inconclusive("large-file hook never reached (no stripped cpio entry was written)");
    }
    let _ = std::fs::remove_dir_all(&base);
}

fn replay(ctx: &Ctx, w: &serde_json::Value, rep: &Report) {
    let Ok(cfg) = serde_json::from_value::<BuildCfg>(w["cfg"].clone()) else {
        println!("witness has no configuration (asset-derived); label = {}", w["label"]);
        let keys = load_keys(&ctx.repo_dir).unwrap_or_default();
        let mut local = BTreeMap::new();
        for it in asset_items(&ctx.repo_dir, &keys).into_iter().flatten() {
            if Some(it.label.as_str()) == w["label"].as_str() {
                judge_item(rep, &mut local, &it);
            }
        }
        return;
    };
    let keys = load_keys(&ctx.repo_dir).unwrap_or_default();
    let dir = ctx.work_dir("replay");
    let mut rng = Rng::new(1);
    let mut local = BTreeMap::new();
    if let Ok(items) = built_items(&cfg, &dir, &keys, &mut rng, true) {
        for it in &items {
            for fd in validate(&it.bytes, it.origin) {
                println!("monitor: {}: {} ({})", it.label, fd.msg, fd.rule);
            }
            judge_item(rep, &mut local, it);
        }
    }
    let _ = std::fs::remove_dir_all(&dir);
}
