//! C19 — capability text is accepted only when every clause is well formed.

use super::CheckDef;
use crate::model::caps::{judge_reason, Verdict};
use crate::util::par::{guard, normalize_msg, par_for};
use crate::util::report::{Ctx, Meta, Report};
use crate::util::rng::{hash_bytes, Rng};
use rpm::{FileCaps, FileOptions};
use serde_json::json;
use std::collections::BTreeMap;
use std::str::FromStr;

pub fn def() -> CheckDef {
    CheckDef { id: "C19", run, meta, dbg: true, replay: Some(replay) }
}

const TOKENS: [&str; 13] = ["cap_chown", "CAP_SYSLOG", "all", "cap_bogus", ",", "=", "+", "-", "e", "i", "p", "x", " "];

fn max_tokens(ctx: &Ctx) -> u32 {
    match (ctx.is_dbg(), ctx.tier.pick(0, 1)) {
        (false, 0) => 5,
        (false, _) => 8,
        (true, 0) => 4,
        (true, _) => 7,
    }
}

fn meta(ctx: &Ctx) -> Meta {
    Meta {
        level: "exploration",
        rule: format!(
            "bounded-exhaustive: every string of up to {} tokens over {:?} (release; one token fewer in the verifdbg pass) plus seeded random longer strings (tabs, newlines, mixed case, all 41 names, non-ASCII look-alikes) is given to FileCaps::from_str and FileOptions::caps and judged against an independent grammar acceptor; accepted text must be kept verbatim. A second complete enumeration covers an alphabet with upper-case flag letters, an upper-case ALL, tab and vertical tab; a deterministic table runs each of the 41 names in three spellings with several suffixes and separators and every one-character near miss of every name. distinct_nontrivial = distinct texts on which the grammar gives a definite verdict (accept/reject), don't-care texts (empty, trailing operator, non-ASCII whitespace) are only judged for no-panic",
            max_tokens(ctx),
            TOKENS
        ),
        assumptions: vec!["the grammar in model/caps.rs is the one the statement describes (validated on the strings the repository's own unit tests pin)".into()],
        floor_distinct: 1000,
    }
}

fn judge_text(s: &str) -> Option<(String, String)> {
    let (want, why) = judge_reason(s);
    let got = FileCaps::from_str(s);
    let got2 = FileCaps::new(s.to_string());
    let via_opts = FileOptions::new("/usr/bin/x").caps(s);
    if got.is_ok() != got2.is_ok() {
        return Some(("from_str-vs-new".into(), format!("FromStr and FileCaps::new disagree on {s:?}")));
    }
    if got.is_ok() != via_opts.is_ok() {
        return Some(("fileoptions-caps".into(), format!("FileOptions::caps({s:?}) is_ok={} but FileCaps::from_str is_ok={}", via_opts.is_ok(), got.is_ok())));
    }
    if let Ok(c) = &got {
        if c.to_string() != s {
            return Some(("not-verbatim".into(), format!("accepted {s:?} but kept {:?}", c.to_string())));
        }
    }
    if let Ok(c) = &got2 {
        if c.to_string() != s {
            return Some(("not-verbatim:new".into(), format!("FileCaps::new accepted {s:?} but kept {:?}", c.to_string())));
        }
    }
    if let (Ok(a), Ok(b)) = (&got, &got2) {
        if a.to_string() != b.to_string() {
            return Some(("from_str-vs-new:value".into(), format!("FromStr and FileCaps::new give different values for {s:?}")));
        }
    }
    match (want, &got) {
        (Verdict::Accept, Err(e)) => Some((format!("rejects-well-formed:{}", normalize_msg(&e.to_string())), format!("{s:?} is well formed but rejected: {e}"))),
        (Verdict::Reject, Ok(_)) => Some((format!("accepts-malformed:{why}"), format!("{s:?} is outside the grammar ({why}) but accepted"))),
        _ => None,
    }
}

fn nth_string(mut idx: u64, len: u32) -> String {
    let mut s = String::new();
    for _ in 0..len {
        s.push_str(TOKENS[(idx % 13) as usize]);
        idx /= 13;
    }
    s
}

fn random_text(r: &mut Rng) -> String {
    const EXTRA: [&str; 25] = ["=EIP", "+Ep", "=E", "-I", "=eIp", "E", "\x0b", "\x0c", "\r\n", "\t", "\n", "  ", "ALL", "All", "cap_\u{17f}etuid", "cap_k\u{131}ll", "é", "cap_chown,cap_syslog", "=eip", "+ep", "-i", "==", "+-", "\u{a0}", "Cap_Net_Admin"];
    let mut s = String::new();
    let n = 1 + r.usize(14);
    for _ in 0..n {
        match r.below(10) {
            0..=3 => s.push_str(TOKENS[r.usize(13)]),
            4..=5 => s.push_str(crate::model::caps::KERNEL_CAPS[r.usize(41)]),
            6 => s.push_str(&crate::model::caps::KERNEL_CAPS[r.usize(41)].to_uppercase()),
            7..=8 => s.push_str(EXTRA[r.usize(EXTRA.len())]),
            _ => s.push(*r.pick(&['=', '+', '-', 'e', 'i', 'p', ',', ' '])),
        }
    }
    s
}

fn observe(rep: &Report, local: &mut BTreeMap<String, u64>, hs: &mut Vec<u64>, s: &str) {
    let (want, _) = judge_reason(s);
    *local.entry(format!("model.{:?}", want)).or_insert(0) += 1;
    if want != Verdict::DontCare {
        hs.push(hash_bytes(s.as_bytes()));
    }
    // every text is offered twice in a row: the verdict on a text does not depend on what was offered before
    let first = guard(|| judge_text(s));
    let second = guard(|| judge_text(s));
    if let (Ok(a), Ok(b)) = (&first, &second) {
        if a != b {
            rep.violation("verdict-depends-on-history", format!("the same text {s:?} judged twice in a row gives {a:?} and then {b:?}"), json!({"text": s}), s.len() as u64);
        }
    }
    match second {
        Ok(None) => {}
        Ok(Some((key, what))) => rep.violation(key, what, json!({"text": s}), s.len() as u64),
        Err(p) => rep.violation(format!("panic:{}", p.site()), format!("panic on {s:?}: {}", p.message), json!({"text": s}), s.len() as u64),
    }
}

fn run(ctx: &Ctx, rep: &Report) {
    if let Err(e) = crate::model::caps::selftest() {
        rep.inconclusive(format!("grammar model failed its self-test: {e}"));
        return;
    }
    let maxt = max_tokens(ctx);
    for len in 0..=maxt {
        let total = 13u64.pow(len);
        let chunk = 4096u64;
        par_for(ctx.threads, total.div_ceil(chunk), 1, |c| {
            let mut local = BTreeMap::new();
            let mut hs = Vec::new();
            let end = ((c + 1) * chunk).min(total);
            for idx in c * chunk..end {
                let s = nth_string(idx, len);
                observe(rep, &mut local, &mut hs, &s);
            }
            rep.counts(&local);
            // the distinct set is bounded: keep hashes for the short lengths, count the rest
            if len <= 4 {
                rep.nontrivial_many(hs);
            } else {
                rep.count("definite_verdict_texts_beyond_len4", hs.len() as u64);
            }
        });
        rep.eval(total);
        rep.count(&format!("enumerated.len{len}"), total);
    }
    // a second complete enumeration over an alphabet with what the first one lacks: upper-case flag
    // letters, an upper-case "ALL", tab and vertical tab as separators
    {
        const TOKENS_B: [&str; 12] = ["cap_chown", "ALL", ",", "=", "+", "-", "e", "E", "I", "P", "\t", "\x0b"];
        let maxb = if ctx.is_dbg() { 3 } else { ctx.tier.pick(4, 6) };
        for len in 1..=maxb {
            let total = 12u64.pow(len);
            let chunk = 4096u64;
            par_for(ctx.threads, total.div_ceil(chunk), 1, |c| {
                let mut local = BTreeMap::new();
                let mut hs = Vec::new();
                for mut idx in c * chunk..((c + 1) * chunk).min(total) {
                    let mut s = String::new();
                    for _ in 0..len {
                        s.push_str(TOKENS_B[(idx % 12) as usize]);
                        idx /= 12;
                    }
                    observe(rep, &mut local, &mut hs, &s);
                }
                rep.counts(&local);
                if len <= 3 {
                    rep.nontrivial_many(hs);
                }
            });
            rep.eval(total);
            rep.count(&format!("enumerated_alphabet_b.len{len}"), total);
        }
    }
    rep.set_exhaustive(true);
    let nrand: u64 = if ctx.is_dbg() { ctx.tier.pick(30_000, 300_000) } else { ctx.tier.pick(100_000, 20_000_000) };
    let chunk = 2000u64;
    par_for(ctx.threads, nrand / chunk, 1, |c| {
        let mut rng = Rng::for_case(ctx.seed, "C19-random", c);
        let mut local = BTreeMap::new();
        let mut hs = Vec::new();
        for _ in 0..chunk {
            let s = random_text(&mut rng);
            observe(rep, &mut local, &mut hs, &s);
        }
        rep.counts(&local);
        if c < 100 {
            rep.nontrivial_many(hs);
        }
    });
    rep.eval(nrand);
    rep.count("random_texts", nrand);
    // every one of the 41 names on its own, in three spellings, alone and in lists, with several
    // suffixes and every ASCII white-space separator; and every near miss (one character dropped,
    // doubled or replaced) of every name, which must be rejected unless it is itself a name
    {
        let mut local = BTreeMap::new();
        let mut hs = Vec::new();
        let names = &crate::model::caps::KERNEL_CAPS;
        let mut texts: Vec<String> = Vec::new();
        for (k, n) in names.iter().enumerate() {
            let other = names[(k + 7) % names.len()];
            let mixed: String = n.chars().enumerate().map(|(i, c)| if i % 2 == 0 { c.to_ascii_uppercase() } else { c }).collect();
            for sp in [n.to_string(), n.to_uppercase(), mixed] {
                for suf in ["=e", "+ep", "=eip", "-i", "=", "", "=E", "+eP", "=EIP"] {
                    texts.push(format!("{sp}{suf}"));
                    texts.push(format!("{other},{sp}{suf}"));
                    texts.push(format!("{sp},{other}{suf}"));
                }
                for ws in [" ", "\t", "\n", "\r", "\x0b", "\x0c"] {
                    texts.push(format!("{sp}=e{ws}{other}+p"));
                    texts.push(format!("{ws}{sp}=e{ws}"));
                }
            }
            let b: Vec<char> = n.chars().collect();
            for i in 0..b.len() {
                let mut del = b.clone();
                del.remove(i);
                let mut dup = b.clone();
                dup.insert(i, b[i]);
                let mut rep1 = b.clone();
                rep1[i] = if b[i] == 'x' { 'y' } else { 'x' };
                for m in [del, dup, rep1] {
                    let m: String = m.into_iter().collect();
                    texts.push(format!("{m}=e"));
                    texts.push(format!("{other},{m}+p"));
                }
            }
        }
        // long name lists: all 41 names, more names than there are capabilities (repeats are legal),
        // a hundred names
        let all: Vec<&str> = names.iter().copied().collect();
        for reps in [1usize, 2, 3] {
            let list: Vec<&str> = all.iter().cycle().take(41 * reps - reps + 1).copied().collect();
            texts.push(format!("{}=ep", list.join(",")));
            texts.push(format!("{}+p cap_chown=e", list[..40.min(list.len())].join(",")));
        }
        for n in [40usize, 41, 42, 43, 64, 100] {
            let list: Vec<&str> = all.iter().cycle().take(n).copied().collect();
            texts.push(format!("{}=e", list.join(",")));
            texts.push(format!("{},cap_bogus=e", list.join(",")));
        }
        // numbers in place of names (libcap prints unknown capabilities as numbers; the property says names)
        for n in ["0", "7", "21", "40", "41", "063", "0x15", "1e1"] {
            texts.push(format!("{n}=e"));
            texts.push(format!("cap_chown,{n}+p"));
            texts.push(format!("=e {n}+i"));
        }
        rep.count("name_table_texts", texts.len() as u64);
        rep.eval(texts.len() as u64);
        for t in &texts {
            observe(rep, &mut local, &mut hs, t);
        }
        rep.counts(&local);
        rep.nontrivial_many(hs);
    }
    for s in ["cap_chown=e =p", "=e +p", "cap_net_admin,cap_net_raw+p", "all=eip", "cap_chown=+e", "cap_\u{17f}etuid=e", "cap_chown="] {
        let (v, why) = judge_reason(s);
        rep.sample(json!({"text": s, "model": format!("{v:?}"), "reason": why, "library_accepts": FileCaps::from_str(s).is_ok()}));
    }
    let mut rng = Rng::for_case(ctx.seed, "C19-samples", 0);
    for _ in 0..4 {
        let s = random_text(&mut rng);
        let (v, why) = judge_reason(&s);
        rep.sample(json!({"text": s, "model": format!("{v:?}"), "reason": why, "library_accepts": FileCaps::from_str(&s).is_ok()}));
    }
}

fn replay(_ctx: &Ctx, w: &serde_json::Value, rep: &Report) {
    let s = w["text"].as_str().unwrap_or("");
    let (v, why) = judge_reason(s);
    println!("monitor: text={s:?} model={v:?} ({why}) library={:?}", FileCaps::from_str(s).map(|c| c.to_string()).map_err(|e| e.to_string()));
    match guard(|| judge_text(s)) {
        Ok(None) => {}
        Ok(Some((k, what))) => rep.violation(k, what, w.clone(), 0),
        Err(p) => rep.violation(format!("panic:{}", p.site()), p.message, w.clone(), 0),
    }
}
