//! A recording implementation of the public `Verifying` trait: logs every call (hash and length of
//! the data it was handed, the signature bytes) and answers from a script.

use rpm::signature::{AlgorithmType, Verifying};
use sha2::Digest;
use std::sync::Mutex;

#[derive(Clone, Debug)]
pub struct Call {
    pub data_sha256: String,
    pub data_len: usize,
    pub signature: Vec<u8>,
    pub answer: bool,
}

#[derive(Debug)]
pub struct RecVerifier {
    pub script: Vec<bool>,
    pub default_answer: bool,
    pub calls: Mutex<Vec<Call>>,
}

impl RecVerifier {
    pub fn new(script: Vec<bool>, default_answer: bool) -> RecVerifier {
        RecVerifier { script, default_answer, calls: Mutex::new(Vec::new()) }
    }
    pub fn take(&self) -> Vec<Call> {
        std::mem::take(&mut *self.calls.lock().unwrap())
    }
}

impl Verifying for RecVerifier {
    type Signature = Vec<u8>;
    fn verify(&self, mut data: impl std::io::Read, signature: &[u8]) -> Result<(), rpm::Error> {
        let mut h = sha2::Sha256::new();
        let mut buf = [0u8; 8192];
        let mut len = 0usize;
        loop {
            let n = data.read(&mut buf)?;
            if n == 0 {
                break;
            }
            h.update(&buf[..n]);
            len += n;
        }
        let mut calls = self.calls.lock().unwrap();
        let answer = self.script.get(calls.len()).copied().unwrap_or(self.default_answer);
        calls.push(Call { data_sha256: hex::encode(h.finalize()), data_len: len, signature: signature.to_vec(), answer });
        if answer {
            Ok(())
        } else {
            // the kind of the rejection varies from call to call: no kind of rejection may be skipped
            match (calls.len() + len) % 4 {
                0 | 1 => Err(rpm::Error::KeyNotFoundError { key_ref: "scripted rejection".into() }),
                2 => Err(rpm::Error::NoSignatureFound),
                _ => Err(rpm::Error::from(std::io::Error::other("scripted rejection"))),
            }
        }
    }
    fn algorithm(&self) -> AlgorithmType {
        AlgorithmType::RSA
    }
}
