pub mod worker;
