pub mod alloc;
pub mod verifier;
pub mod worker;
