pub fn child_main(_args: &[String]) -> i32 {
    64
}
