//! Worker processes: anything that may panic, abort, exhaust memory or hang is executed in child
//! processes of this same binary. The child announces every case before running it (`B id`),
//! reports the outcome after (`R id json`), converts panics into outcomes (panic hook +
//! catch_unwind), enforces an allocation budget per case (monitor/alloc.rs) and has RLIMIT_AS as a
//! backstop. The parent owns the oracle, the watchdog and the evidence; a child that dies leaves its
//! last `B` as the suspect.

use crate::monitor::alloc;
use crate::util::par::guard;
use serde_json::{json, Value};
use std::io::{BufRead, BufReader, Read, Write};
use std::path::Path;
use std::process::{Command, Stdio};
use std::sync::atomic::{AtomicBool, AtomicU64, Ordering};
use std::sync::{Arc, Mutex};
use std::time::{Duration, Instant};

pub type Judge = fn(&[u8]) -> Value;

/// extra arguments of a worker child (`rpmverif worker <judge> <args...>`), e.g. a base package file
pub static WORKER_ARGS: std::sync::OnceLock<Vec<String>> = std::sync::OnceLock::new();

fn judges() -> Vec<(&'static str, Judge)> {
    crate::checks::worker_judges()
}

// ---------------------------------------------------------------------------------------------
// child side

pub fn child_main(args: &[String]) -> i32 {
    let name = args.first().map(|s| s.as_str()).unwrap_or("");
    let _ = WORKER_ARGS.set(args.iter().skip(1).cloned().collect());
    let Some((_, judge)) = judges().into_iter().find(|(n, _)| *n == name) else {
        eprintln!("unknown worker judge {name}");
        return 64;
    };
    // backstop against runaway memory (address space), far above any legitimate need
    // (AddressSanitizer reserves terabytes of address space for its shadow memory)
    #[cfg(not(miri))]
    if std::env::var_os("VERIF_NO_RLIMIT").is_none() {
        unsafe {
            let lim = libc::rlimit { rlim_cur: 6 << 30, rlim_max: 6 << 30 };
            libc::setrlimit(libc::RLIMIT_AS, &lim);
        }
    }
    crate::util::par::install_panic_hook();
    alloc::enable();
    let stdin = std::io::stdin();
    let mut inp = stdin.lock();
    let mut head = [0u8; 20];
    loop {
        if inp.read_exact(&mut head).is_err() {
            break;
        }
        let id = u64::from_le_bytes(head[0..8].try_into().unwrap());
        let budget = u64::from_le_bytes(head[8..16].try_into().unwrap());
        let len = u32::from_le_bytes(head[16..20].try_into().unwrap()) as usize;
        let mut bytes = vec![0u8; len];
        if inp.read_exact(&mut bytes).is_err() {
            break;
        }
        eprintln!("B {id}");
        alloc::begin(id, budget);
        let r = guard(|| judge(&bytes));
        let (peak, largest) = alloc::end();
        let line = match r {
            Ok(v) => json!({"ok": v, "peak": peak, "largest": largest}),
            Err(p) => json!({"panic": {"message": p.message, "file": p.file, "line": p.line, "frame": p.rpm_frame}, "peak": peak, "largest": largest}),
        };
        eprintln!("R {id} {line}");
    }
    0
}

// ---------------------------------------------------------------------------------------------
// parent side

pub struct Case {
    pub id: u64,
    /// allocation budget in bytes (0 = no budget)
    pub budget: u64,
    pub bytes: Vec<u8>,
}

pub fn default_budget(len: usize) -> u64 {
    (4u64 << 20) + 256 * len as u64
}

#[derive(Clone, Debug)]
pub enum Outcome {
    /// the judge ran to completion: its value, peak live bytes, largest single request
    Done { value: Value, peak: u64, largest: u64 },
    Panic { message: String, file: String, line: u64, frame: String },
    /// allocation budget exceeded: refused request size and live bytes at that moment
    Alloc { request: u64, live: u64, site: String },
    /// the process died (signal / abort / non-zero exit) while the case was open
    Crash { status: String, stderr_tail: String },
    /// no progress within the watchdog (confirmed = still running when re-run alone with 10x budget)
    Timeout { confirmed: bool },
}

impl Outcome {
    pub fn site(&self) -> String {
        match self {
            Outcome::Panic { message, file, frame, .. } => format!("panic:{}", crate::util::par::site_of(file, frame, message)),
            Outcome::Alloc { site, .. } => format!("alloc-budget:{site}"),
            Outcome::Crash { status, .. } => format!("crash:{status}"),
            Outcome::Timeout { .. } => "timeout".into(),
            Outcome::Done { .. } => "done".into(),
        }
    }
}

/// how a worker child is started: directly, or through a wrapper (valgrind, `cargo miri run`)
#[derive(Clone, Debug)]
pub struct Launcher {
    pub program: std::path::PathBuf,
    /// arguments before `worker <judge> ...`
    pub pre_args: Vec<String>,
    pub env: Vec<(String, String)>,
}

impl Launcher {
    pub fn direct(bin: &Path) -> Launcher {
        Launcher { program: bin.to_path_buf(), pre_args: vec![], env: vec![] }
    }
}

struct ShardState {
    results: Vec<(u64, Outcome)>,
}

fn run_shard(l: &Launcher, judge: &str, extra: &[String], shard: &[&Case], timeout: Duration) -> Vec<(u64, Outcome)> {
    let mut st = ShardState { results: Vec::with_capacity(shard.len()) };
    let mut next = 0usize;
    let mut stalls = 0;
    while next < shard.len() {
        let mut child = match Command::new(&l.program).args(&l.pre_args).arg("worker").arg(judge).args(extra).envs(l.env.iter().map(|(k, v)| (k.as_str(), v.as_str()))).stdin(Stdio::piped()).stdout(Stdio::null()).stderr(Stdio::piped()).spawn() {
            Ok(c) => c,
            Err(e) => {
                for c in &shard[next..] {
                    st.results.push((c.id, Outcome::Crash { status: format!("spawn failed: {e}"), stderr_tail: String::new() }));
                }
                break;
            }
        };
        let mut stdin = child.stdin.take().unwrap();
        let stderr = child.stderr.take().unwrap();
        let pid = child.id() as i32;
        let last_event = Arc::new(Mutex::new(Instant::now()));
        let open_flag = Arc::new(AtomicBool::new(false));
        let finished = Arc::new(AtomicBool::new(false));
        let timed_out = Arc::new(AtomicBool::new(false));
        let start = next;
        let mut done_here = 0usize;
        let mut open: Option<u64> = None;
        let mut alloc_marker: Option<(u64, u64, u64)> = None;
        let mut alloc_site = String::from("?");
        let mut tail: Vec<String> = Vec::new();
        std::thread::scope(|s| {
            // feeder
            let feed = &shard[start..];
            s.spawn(move || {
                for c in feed {
                    let mut head = [0u8; 20];
                    head[0..8].copy_from_slice(&c.id.to_le_bytes());
                    head[8..16].copy_from_slice(&c.budget.to_le_bytes());
                    head[16..20].copy_from_slice(&(c.bytes.len() as u32).to_le_bytes());
                    if stdin.write_all(&head).is_err() || stdin.write_all(&c.bytes).is_err() {
                        break;
                    }
                }
                drop(stdin);
            });
            // watchdog
            let (done_tx, done_rx) = std::sync::mpsc::channel::<()>();
            {
                let (last_event, open_flag, finished, timed_out) = (last_event.clone(), open_flag.clone(), finished.clone(), timed_out.clone());
                s.spawn(move || loop {
                    // wakes up at once when the reader is done
                    if done_rx.recv_timeout(Duration::from_millis(100)).is_ok() || finished.load(Ordering::Relaxed) {
                        break;
                    }
                    let idle = last_event.lock().unwrap().elapsed();
                    if open_flag.load(Ordering::Relaxed) && idle > timeout {
                        timed_out.store(true, Ordering::Relaxed);
                        unsafe {
                            libc::kill(pid, libc::SIGKILL);
                        }
                        break;
                    }
                });
            }
            // reader (this thread)
            let mut rd = BufReader::new(stderr);
            let mut line = String::new();
            loop {
                line.clear();
                match rd.read_line(&mut line) {
                    Ok(0) | Err(_) => break,
                    Ok(_) => {}
                }
                *last_event.lock().unwrap() = Instant::now();
                let l = line.trim_end();
                if let Some(rest) = l.strip_prefix("B ") {
                    open = rest.parse().ok();
                    open_flag.store(true, Ordering::Relaxed);
                } else if let Some(rest) = l.strip_prefix("R ") {
                    if let Some((id, js)) = rest.split_once(' ') {
                        let id: u64 = id.parse().unwrap_or(u64::MAX);
                        let v: Value = serde_json::from_str(js).unwrap_or(Value::Null);
                        let peak = v["peak"].as_u64().unwrap_or(0);
                        let largest = v["largest"].as_u64().unwrap_or(0);
                        let out = if let Some(p) = v.get("panic") {
                            Outcome::Panic {
                                message: p["message"].as_str().unwrap_or("").to_string(),
                                file: p["file"].as_str().unwrap_or("").to_string(),
                                line: p["line"].as_u64().unwrap_or(0),
                                frame: p["frame"].as_str().unwrap_or("").to_string(),
                            }
                        } else {
                            Outcome::Done { value: v["ok"].clone(), peak, largest }
                        };
                        st.results.push((id, out));
                        done_here += 1;
                        open = None;
                        open_flag.store(false, Ordering::Relaxed);
                    }
                } else if let Some(rest) = l.strip_prefix("A ") {
                    let mut it = rest.split(' ').map(|x| x.parse::<u64>().unwrap_or(0));
                    alloc_marker = Some((it.next().unwrap_or(0), it.next().unwrap_or(0), it.next().unwrap_or(0)));
                } else if let Some(rest) = l.strip_prefix("S ") {
                    alloc_site = rest.to_string();
                } else if !l.is_empty() {
                    if tail.len() >= 6 {
                        tail.remove(0);
                    }
                    tail.push(l.chars().take(300).collect());
                }
            }
            finished.store(true, Ordering::Relaxed);
            let _ = done_tx.send(());
        });
        let status = child.wait().map(|s| format!("{s}")).unwrap_or_else(|e| format!("wait failed: {e}"));
        if let Some(id) = open {
            let out = if let Some((_, request, live)) = alloc_marker {
                Outcome::Alloc { request, live, site: alloc_site.clone() }
            } else if timed_out.load(Ordering::Relaxed) {
                Outcome::Timeout { confirmed: false }
            } else {
                Outcome::Crash { status: status.clone(), stderr_tail: tail.join(" | ") }
            };
            st.results.push((id, out));
            done_here += 1;
        }
        if done_here == 0 {
            stalls += 1;
            if stalls >= 3 {
                for c in &shard[next..] {
                    st.results.push((c.id, Outcome::Crash { status: format!("worker makes no progress ({status})"), stderr_tail: tail.join(" | ") }));
                }
                break;
            }
        } else {
            stalls = 0;
        }
        next = start + done_here;
    }
    st.results
}

/// Run all cases through `workers` child processes of `bin`; outcomes are returned in case order.
pub fn run_cases(bin: &Path, judge: &str, cases: &[Case], workers: usize, timeout: Duration) -> Vec<(u64, Outcome)> {
    run_cases_args(bin, judge, &[], cases, workers, timeout)
}

pub fn run_cases_args(bin: &Path, judge: &str, extra: &[String], cases: &[Case], workers: usize, timeout: Duration) -> Vec<(u64, Outcome)> {
    run_cases_with(&Launcher::direct(bin), judge, extra, cases, workers, timeout)
}

pub fn run_cases_with(l: &Launcher, judge: &str, extra: &[String], cases: &[Case], workers: usize, timeout: Duration) -> Vec<(u64, Outcome)> {
    let workers = workers.max(1).min(cases.len().max(1));
    let mut shards: Vec<Vec<&Case>> = (0..workers).map(|_| Vec::new()).collect();
    // contiguous blocks keep neighbouring (similar) cases in one worker
    let per = cases.len().div_ceil(workers);
    for (i, c) in cases.iter().enumerate() {
        shards[(i / per.max(1)).min(workers - 1)].push(c);
    }
    let all: Mutex<Vec<(u64, Outcome)>> = Mutex::new(Vec::with_capacity(cases.len()));
    std::thread::scope(|s| {
        for sh in &shards {
            let all = &all;
            s.spawn(move || {
                let r = run_shard(l, judge, extra, sh, timeout);
                all.lock().unwrap().extend(r);
            });
        }
    });
    let mut all = all.into_inner().unwrap();
    // confirm timeouts on an otherwise idle machine with a 10x budget
    let by_id: std::collections::HashMap<u64, &Case> = cases.iter().map(|c| (c.id, c)).collect();
    for (id, out) in all.iter_mut() {
        if let Outcome::Timeout { .. } = out {
            if let Some(c) = by_id.get(id) {
                let again = run_shard(l, judge, extra, &[*c], timeout * 10);
                match again.into_iter().next() {
                    Some((_, Outcome::Timeout { .. })) => *out = Outcome::Timeout { confirmed: true },
                    Some((_, o)) => *out = o,
                    None => {}
                }
            }
        }
    }
    all.sort_by_key(|(id, _)| *id);
    all
}

pub fn worker_binaries() -> Vec<(&'static str, std::path::PathBuf)> {
    let mut v = Vec::new();
    if let Ok(p) = std::env::var("VERIF_REL_BIN") {
        v.push(("release", std::path::PathBuf::from(p)));
    } else if let Ok(p) = std::env::current_exe() {
        v.push((crate::util::report::profile_name(), p));
    }
    if let Ok(p) = std::env::var("VERIF_DBG_BIN") {
        let p = std::path::PathBuf::from(p);
        if p.exists() {
            v.push(("verifdbg", p));
        }
    }
    v
}

static NEXT_ID: AtomicU64 = AtomicU64::new(0);
pub fn fresh_id() -> u64 {
    NEXT_ID.fetch_add(1, Ordering::Relaxed)
}
