//! Counting global allocator. Inactive (one relaxed load per call) unless a worker child enables
//! it; then it tracks live bytes / peak / largest single request per operation and, when a budget is
//! exceeded, refuses the request by reporting `A <case> <request> <live>` on fd 2 and exiting the
//! process with status 77 (an allocation failure cannot be unwound, so the child process is the unit
//! of containment). Counters only — no address bookkeeping that could hide leaks from other tools.

use std::alloc::{GlobalAlloc, Layout, System};
use std::sync::atomic::{AtomicBool, AtomicU64, Ordering};

pub struct Counting;

static ENABLED: AtomicBool = AtomicBool::new(false);
static LIVE: AtomicU64 = AtomicU64::new(0);
static BASE: AtomicU64 = AtomicU64::new(0);
static PEAK: AtomicU64 = AtomicU64::new(0);
static LARGEST: AtomicU64 = AtomicU64::new(0);
static BUDGET: AtomicU64 = AtomicU64::new(0);
static CASE: AtomicU64 = AtomicU64::new(0);

fn write_num(buf: &mut [u8], pos: &mut usize, mut n: u64) {
    let mut tmp = [0u8; 20];
    let mut i = 0;
    if n == 0 {
        tmp[0] = b'0';
        i = 1;
    }
    while n > 0 {
        tmp[i] = b'0' + (n % 10) as u8;
        n /= 10;
        i += 1;
    }
    while i > 0 {
        i -= 1;
        buf[*pos] = tmp[i];
        *pos += 1;
    }
}

#[cold]
fn trip(request: u64, live: u64) -> ! {
    // name the allocation site: accounting is off from here on, the process exits below
    ENABLED.store(false, Ordering::Relaxed);
    let bt = if cfg!(miri) { String::new() } else { std::backtrace::Backtrace::force_capture().to_string() };
    let frame = crate::util::par::first_repo_frame(&bt);
    let site = format!("\nS {}\n", if frame.is_empty() { "?" } else { &frame });
    unsafe {
        libc::write(2, site.as_ptr() as *const libc::c_void, site.len());
    }
    let mut buf = [0u8; 96];
    let mut p = 0;
    buf[0] = b'\n';
    buf[1] = b'A';
    buf[2] = b' ';
    p += 3;
    write_num(&mut buf, &mut p, CASE.load(Ordering::Relaxed));
    buf[p] = b' ';
    p += 1;
    write_num(&mut buf, &mut p, request);
    buf[p] = b' ';
    p += 1;
    write_num(&mut buf, &mut p, live);
    buf[p] = b'\n';
    p += 1;
    unsafe {
        libc::write(2, buf.as_ptr() as *const libc::c_void, p);
        libc::_exit(77);
    }
}

#[inline]
fn on_alloc(size: u64) {
    if !ENABLED.load(Ordering::Relaxed) {
        return;
    }
    let live = LIVE.fetch_add(size, Ordering::Relaxed) + size;
    let above = live.saturating_sub(BASE.load(Ordering::Relaxed));
    if above > PEAK.load(Ordering::Relaxed) {
        PEAK.store(above, Ordering::Relaxed);
    }
    if size > LARGEST.load(Ordering::Relaxed) {
        LARGEST.store(size, Ordering::Relaxed);
    }
    let b = BUDGET.load(Ordering::Relaxed);
    if b != 0 && (size > b || above > b) {
        trip(size, above);
    }
}

#[inline]
fn on_free(size: u64) {
    if ENABLED.load(Ordering::Relaxed) {
        LIVE.fetch_sub(size, Ordering::Relaxed);
    }
}

unsafe impl GlobalAlloc for Counting {
    unsafe fn alloc(&self, l: Layout) -> *mut u8 {
        on_alloc(l.size() as u64);
        System.alloc(l)
    }
    unsafe fn alloc_zeroed(&self, l: Layout) -> *mut u8 {
        on_alloc(l.size() as u64);
        System.alloc_zeroed(l)
    }
    unsafe fn dealloc(&self, p: *mut u8, l: Layout) {
        on_free(l.size() as u64);
        System.dealloc(p, l)
    }
    unsafe fn realloc(&self, p: *mut u8, l: Layout, new: usize) -> *mut u8 {
        if new > l.size() {
            on_alloc((new - l.size()) as u64);
        } else {
            on_free((l.size() - new) as u64);
        }
        System.realloc(p, l, new)
    }
}

/// start tracking (child processes only). LIVE starts from a large offset so that frees of
/// allocations made before tracking started cannot wrap it.
pub fn enable() {
    LIVE.store(1 << 40, Ordering::Relaxed);
    ENABLED.store(true, Ordering::Relaxed);
}

/// begin an operation: peak/largest are measured relative to the current live size
pub fn begin(case: u64, budget: u64) {
    CASE.store(case, Ordering::Relaxed);
    BASE.store(LIVE.load(Ordering::Relaxed), Ordering::Relaxed);
    PEAK.store(0, Ordering::Relaxed);
    LARGEST.store(0, Ordering::Relaxed);
    BUDGET.store(budget, Ordering::Relaxed);
}

/// end an operation: (peak live bytes above the start, largest single request)
pub fn end() -> (u64, u64) {
    BUDGET.store(0, Ordering::Relaxed);
    (PEAK.load(Ordering::Relaxed), LARGEST.load(Ordering::Relaxed))
}

/// suspend accounting (used by the panic hook: backtrace symbolisation allocates megabytes of
/// cached debug info that must not be charged to the case); returns the previous state
pub fn pause() -> bool {
    ENABLED.swap(false, Ordering::Relaxed)
}

pub fn resume(prev: bool) {
    ENABLED.store(prev, Ordering::Relaxed);
}
