//! G-BUILD: serialisable `PackageBuilder` configurations, their seeded generator, and the code that
//! materialises a configuration (source files on disk, builder calls). The configuration itself is
//! the model for C06/C07/C08/C11.

use crate::util::rng::Rng;
use rpm::{CompressionWithLevel, Dependency, DependencyFlags, FileMode, FileOptions, FileVerifyFlags, PackageBuilder, Scriptlet, ScriptletFlags};
use serde::{Deserialize, Serialize};
use std::path::{Path, PathBuf};

#[derive(Clone, Debug, Serialize, Deserialize, PartialEq)]
pub struct FileCfg {
    pub dest: String,
    /// "noise" (incompressible), "text" (compressible), "zero"
    pub content_kind: String,
    pub size: usize,
    pub content_seed: u64,
    /// explicit raw mode given to FileOptions::mode (None => inherited from the source file)
    pub mode: Option<i32>,
    /// permission bits of the source file on disk
    pub source_perm: u32,
    pub user: Option<String>,
    pub group: Option<String>,
    /// subset of doc, config, noreplace, ghost, license, readme
    pub flags: Vec<String>,
    pub caps: Option<String>,
    pub symlink: Option<String>,
    pub mtime: i64,
    pub verify: Option<u32>,
}

#[derive(Clone, Debug, Serialize, Deserialize, PartialEq)]
pub struct DepCfg {
    /// 0 provides, 1 requires, 2 conflicts, 3 obsoletes, 4 recommends, 5 suggests, 6 enhances, 7 supplements
    pub kind: u8,
    /// constructor: any, eq, less, less_eq, greater, greater_eq, script_pre, script_post, raw
    pub ctor: String,
    pub name: String,
    pub version: String,
    pub raw_flags: u32,
}

#[derive(Clone, Debug, Serialize, Deserialize, PartialEq)]
pub struct ScriptCfg {
    /// 0 prein 1 postin 2 preun 3 postun 4 pretrans 5 posttrans 6 preuntrans 7 postuntrans 8 verify
    pub which: u8,
    pub script: String,
    pub flags: Option<u32>,
    pub prog: Option<Vec<String>>,
}

#[derive(Clone, Debug, Serialize, Deserialize, PartialEq, Default)]
pub struct BuildCfg {
    pub name: String,
    pub version: String,
    pub license: String,
    pub arch: String,
    pub summary: String,
    pub release: Option<String>,
    pub epoch: Option<u32>,
    pub description: Option<String>,
    pub vendor: Option<String>,
    pub packager: Option<String>,
    pub group: Option<String>,
    pub url: Option<String>,
    pub vcs: Option<String>,
    pub cookie: Option<String>,
    pub build_host: Option<String>,
    pub source_date: Option<u32>,
    /// None => library default; Some((type, level))
    pub compression: Option<(String, i64)>,
    pub files: Vec<FileCfg>,
    pub deps: Vec<DepCfg>,
    pub scripts: Vec<ScriptCfg>,
    pub changelog: Vec<(String, String, u32)>,
    /// build with the large-file (stripped cpio) hook on
    pub large_files: bool,
    /// call the scalar setters (source date, compression, metadata) AFTER the files, dependencies,
    /// scriptlets and changelog entries were added: the order of builder calls must not matter
    #[serde(default)]
    pub late_setters: bool,
    /// seeded random interleaving of all builder calls (see `call_sequence`)
    #[serde(default)]
    pub call_order_seed: Option<u64>,
    /// how instants (source date, changelog times) are handed to the builder: 0 as u32 seconds,
    /// 1..=3 as chrono::DateTime with the fixed offsets +05:30 / -08:00 / +14:00, 4 as SystemTime
    #[serde(default)]
    pub time_form: u8,
    /// rewrite the source files (same length / longer / shorter / removed) between the last
    /// with_file() call and build(): whatever the builder then packages must be consistent with
    /// itself (only self-consistency is judged for such configurations)
    /// 0 = no; 1 = every file rewritten with other bytes of the same length; 2 = every file grows and
    /// its old bytes change too; 3 = a mix of both with truncated and removed files
    #[serde(default)]
    pub disturb_sources: u8,
}

/// the instant `secs` in the form selected by `form` (see BuildCfg::time_form)
pub fn instant(form: u8, secs: u32) -> rpm::Timestamp {
    use chrono::TimeZone;
    let off = |s: i32| chrono::FixedOffset::east_opt(s).unwrap().timestamp_opt(secs as i64, 0).single().unwrap();
    match form {
        1 => rpm::Timestamp::try_from(off(19_800)),
        2 => rpm::Timestamp::try_from(off(-28_800)),
        3 => rpm::Timestamp::try_from(off(50_400)),
        // a SystemTime late inside that second (the whole seconds count, fractions do not round up)
        4 => rpm::Timestamp::try_from(std::time::UNIX_EPOCH + std::time::Duration::new(secs as u64, [0u32, 750_000_000, 999_999_999][(secs % 3) as usize])),
        _ => Ok(rpm::Timestamp::from(secs)),
    }
    .unwrap_or(rpm::Timestamp::from(secs))
}

pub fn file_content(f: &FileCfg) -> Vec<u8> {
    match f.content_kind.as_str() {
        "noise" => Rng::new(f.content_seed).bytes(f.size),
        "zero" => vec![0u8; f.size],
        // data, then zeroes up to the end (at least one whole 4 KiB block of them when the size allows)
        "tail-zeros" => {
            let mut v = Rng::new(f.content_seed).bytes(f.size);
            let keep = f.size.saturating_sub(4200).max(f.size / 4);
            v[keep..].iter_mut().for_each(|b| *b = 0);
            v
        }
        _ => {
            let mut r = Rng::new(f.content_seed);
            let words = ["lorem ", "ipsum ", "dolor\n", "sit ", "amet ", "rpm ", "0123456789 ", "\t", "é"];
            let mut v = Vec::with_capacity(f.size + 16);
            while v.len() < f.size {
                v.extend_from_slice(words[r.usize(words.len())].as_bytes());
            }
            v.truncate(f.size);
            v
        }
    }
}

pub fn compression_of(cfg: &BuildCfg) -> Option<CompressionWithLevel> {
    cfg.compression.as_ref().map(|(t, l)| match t.as_str() {
        "none" => CompressionWithLevel::None,
        "gzip" => CompressionWithLevel::Gzip(*l as u32),
        "zstd" => CompressionWithLevel::Zstd(*l as i32),
        "xz" => CompressionWithLevel::Xz(*l as u32),
        "bzip2" => CompressionWithLevel::Bzip2(*l as u32),
        o => panic!("unknown compression {o}"),
    })
}

/// name the payload compressor that the header must carry (None = no PAYLOADCOMPRESSOR tag)
pub fn compressor_name(cfg: &BuildCfg) -> Option<String> {
    match &cfg.compression {
        None => Some("zstd".into()), // library default with default features
        Some((t, _)) if t == "none" => None,
        Some((t, _)) => Some(t.clone()),
    }
}

pub fn set_mtime(path: &Path, secs: i64) -> bool {
    use std::os::unix::ffi::OsStrExt;
    let c = std::ffi::CString::new(path.as_os_str().as_bytes()).unwrap();
    let ts = [libc::timespec { tv_sec: secs, tv_nsec: 0 }, libc::timespec { tv_sec: secs, tv_nsec: 0 }];
    unsafe { libc::utimensat(libc::AT_FDCWD, c.as_ptr(), ts.as_ptr(), 0) == 0 }
}

/// like `set_mtime`, with a sub-second part (the package records whole seconds: the part is dropped)
pub fn set_mtime_ns(path: &Path, secs: i64, nanos: i64) -> bool {
    use std::os::unix::ffi::OsStrExt;
    let c = std::ffi::CString::new(path.as_os_str().as_bytes()).unwrap();
    let ts = [libc::timespec { tv_sec: secs, tv_nsec: nanos }, libc::timespec { tv_sec: secs, tv_nsec: nanos }];
    unsafe { libc::utimensat(libc::AT_FDCWD, c.as_ptr(), ts.as_ptr(), 0) == 0 }
}

/// Write the source files of a configuration into `dir` (idempotent); returns their paths.
pub fn materialize_sources(cfg: &BuildCfg, dir: &Path) -> Vec<PathBuf> {
    use std::os::unix::fs::PermissionsExt;
    std::fs::create_dir_all(dir).expect("mkdir sources");
    let mut out = Vec::new();
    for (i, f) in cfg.files.iter().enumerate() {
        let p = dir.join(format!("src{i}"));
        std::fs::write(&p, file_content(f)).expect("write source file");
        std::fs::set_permissions(&p, std::fs::Permissions::from_mode(f.source_perm)).expect("chmod");
        // whole seconds for some files, late fractions of the second for others
        let nanos = [0i64, 750_000_000, 999_999_999, 500_000_000][(f.content_seed % 4) as usize];
        assert!(set_mtime_ns(&p, f.mtime, if f.mtime >= 0 { nanos } else { 0 }), "utimensat");
        out.push(p);
    }
    out
}

/// see BuildCfg::disturb_sources
pub fn disturb(sources: &[PathBuf], how: u8) {
    use std::os::unix::fs::PermissionsExt;
    for (i, p) in sources.iter().enumerate() {
        let _ = std::fs::set_permissions(p, std::fs::Permissions::from_mode(0o644));
        let Ok(mut data) = std::fs::read(p) else { continue };
        let what = match how {
            1 => 0,
            2 => 1,
            _ => i % 4,
        };
        match what {
            0 => data.iter_mut().for_each(|b| *b ^= 0xff),
            1 => {
                data.iter_mut().for_each(|b| *b = b.wrapping_add(1));
                data.extend_from_slice(b"appended after with_file()");
            }
            2 => data.truncate(data.len() / 2),
            _ => {
                let _ = std::fs::remove_file(p);
                continue;
            }
        }
        let _ = std::fs::write(p, &data);
    }
}

pub fn dep_of(d: &DepCfg) -> Dependency {
    match d.ctor.as_str() {
        "any" => Dependency::any(d.name.clone()),
        "eq" => Dependency::eq(d.name.clone(), d.version.clone()),
        "less" => Dependency::less(d.name.clone(), d.version.clone()),
        "less_eq" => Dependency::less_eq(d.name.clone(), d.version.clone()),
        "greater" => Dependency::greater(d.name.clone(), d.version.clone()),
        "greater_eq" => Dependency::greater_eq(d.name.clone(), d.version.clone()),
        "script_pre" => Dependency::script_pre(d.name.clone()),
        "script_post" => Dependency::script_post(d.name.clone()),
        _ => Dependency { name: d.name.clone(), flags: DependencyFlags::from_bits_retain(d.raw_flags), version: d.version.clone() },
    }
}

/// flag bits the model expects for a dependency (RPMSENSE_* values from rpm's headers)
pub fn dep_expected(d: &DepCfg) -> (String, u32, String) {
    let (flags, ver) = match d.ctor.as_str() {
        "any" => (0, String::new()),
        "eq" => (8, d.version.clone()),
        "less" => (2, d.version.clone()),
        "less_eq" => (2 | 8, d.version.clone()),
        "greater" => (4, d.version.clone()),
        "greater_eq" => (4 | 8, d.version.clone()),
        "script_pre" => (1 << 9, String::new()),
        "script_post" => (1 << 10, String::new()),
        _ => (d.raw_flags, d.version.clone()),
    };
    (d.name.clone(), flags, ver)
}

fn scriptlet_of(s: &ScriptCfg) -> Scriptlet {
    let mut sc = Scriptlet::new(s.script.clone());
    if let Some(f) = s.flags {
        sc = sc.flags(ScriptletFlags::from_bits_retain(f));
    }
    if let Some(p) = &s.prog {
        sc = sc.prog(p.clone());
    }
    sc
}

pub fn file_options(f: &FileCfg) -> Result<FileOptions, rpm::Error> {
    let mut o = FileOptions::new(f.dest.clone());
    if let Some(u) = &f.user {
        o = o.user(u.clone());
    }
    if let Some(g) = &f.group {
        o = o.group(g.clone());
    }
    if let Some(m) = f.mode {
        o = o.mode(FileMode::from(m));
    }
    if let Some(l) = &f.symlink {
        o = o.symlink(l.clone());
    }
    if let Some(c) = &f.caps {
        o = o.caps(c.clone())?;
    }
    if let Some(v) = f.verify {
        o = o.verify(FileVerifyFlags::from_bits_retain(v));
    }
    for fl in &f.flags {
        o = match fl.as_str() {
            "doc" => o.is_doc(),
            "config" => o.is_config(),
            "noreplace" => o.is_config_noreplace(),
            "ghost" => o.is_ghost(),
            "license" => o.is_license(),
            "readme" => o.is_readme(),
            _ => o,
        };
    }
    Ok(o.into())
}

/// FILEFLAGS bits the model expects (RPMFILE_* values from rpm's headers)
pub fn file_flags_expected(f: &FileCfg) -> u32 {
    let mut b = 0u32;
    for fl in &f.flags {
        b |= match fl.as_str() {
            "config" => 1,
            "doc" => 1 << 1,
            "noreplace" => 1 | (1 << 4),
            "ghost" => 1 << 6,
            "license" => 1 << 7,
            "readme" => 1 << 8,
            _ => 0,
        };
    }
    b
}

/// one builder call
#[derive(Clone, Copy, Debug)]
enum Call {
    Scalar(usize),
    File(usize),
    Dep(usize),
    Script(usize),
    Changelog(usize),
}

/// The sequence of builder calls for a configuration. Default: scalars, files, dependencies,
/// scriptlets, changelog. `late_setters`: scalars last. `call_order_seed`: a seeded random
/// interleaving of the groups that keeps the relative order inside each group (dependencies of one
/// kind and changelog entries must stay in the order they were supplied) - the order of builder
/// calls must not matter.
fn call_sequence(cfg: &BuildCfg) -> Vec<Call> {
    let scalars: Vec<Call> = (0..12).map(Call::Scalar).collect();
    let files: Vec<Call> = (0..cfg.files.len()).map(Call::File).collect();
    let scripts: Vec<Call> = (0..cfg.scripts.len()).map(Call::Script).collect();
    let changelog: Vec<Call> = (0..cfg.changelog.len()).map(Call::Changelog).collect();
    // dependencies: one group per kind, so that kinds can interleave but each list keeps its order
    let mut dep_groups: Vec<Vec<Call>> = (0..8).map(|k| (0..cfg.deps.len()).filter(|i| cfg.deps[*i].kind.min(7) == k).map(Call::Dep).collect()).collect();
    match cfg.call_order_seed {
        None => {
            let deps: Vec<Call> = (0..cfg.deps.len()).map(Call::Dep).collect();
            let mut v = Vec::new();
            if !cfg.late_setters {
                v.extend(scalars.iter().copied());
            }
            v.extend(files);
            v.extend(deps);
            v.extend(scripts);
            v.extend(changelog);
            if cfg.late_setters {
                v.extend(scalars);
            }
            v
        }
        Some(seed) => {
            let mut r = Rng::new(seed);
            // every scalar setter and every file / scriptlet is its own group (free to move)
            let mut groups: Vec<Vec<Call>> = Vec::new();
            groups.extend(scalars.into_iter().map(|c| vec![c]));
            groups.extend(files.into_iter().map(|c| vec![c]));
            groups.extend(scripts.into_iter().map(|c| vec![c]));
            groups.append(&mut dep_groups);
            groups.push(changelog);
            groups.retain(|g| !g.is_empty());
            let mut v = Vec::new();
            while !groups.is_empty() {
                let g = r.usize(groups.len());
                v.push(groups[g].remove(0));
                if groups[g].is_empty() {
                    groups.remove(g);
                }
            }
            v
        }
    }
}

/// Assemble the builder for a configuration whose sources are already on disk.
pub fn builder_for(cfg: &BuildCfg, sources: &[PathBuf]) -> Result<PackageBuilder, rpm::Error> {
    let mut b = PackageBuilder::new(&cfg.name, &cfg.version, &cfg.license, &cfg.arch, &cfg.summary);
    for call in call_sequence(cfg) {
        b = match call {
            Call::Scalar(i) => scalar_setter(cfg, b, i),
            Call::File(i) => b.with_file(&sources[i], file_options(&cfg.files[i])?)?,
            Call::Dep(i) => {
                let d = &cfg.deps[i];
                let dep = dep_of(d);
                match d.kind {
                    0 => b.provides(dep),
                    1 => b.requires(dep),
                    2 => b.conflicts(dep),
                    3 => b.obsoletes(dep),
                    4 => b.recommends(dep),
                    5 => b.suggests(dep),
                    6 => b.enhances(dep),
                    _ => b.supplements(dep),
                }
            }
            Call::Script(i) => {
                let s = &cfg.scripts[i];
                let sc = scriptlet_of(s);
                match s.which {
                    0 => b.pre_install_script(sc),
                    1 => b.post_install_script(sc),
                    2 => b.pre_uninstall_script(sc),
                    3 => b.post_uninstall_script(sc),
                    4 => b.pre_trans_script(sc),
                    5 => b.post_trans_script(sc),
                    6 => b.pre_untrans_script(sc),
                    7 => b.post_untrans_script(sc),
                    _ => b.verify_script(sc),
                }
            }
            Call::Changelog(i) => {
                let (n, t, ts) = &cfg.changelog[i];
                b.add_changelog_entry(n, t, instant(cfg.time_form, *ts))
            }
        };
    }
    Ok(b)
}

fn scalar_setter(cfg: &BuildCfg, b: PackageBuilder, i: usize) -> PackageBuilder {
    match i {
        0 => match &cfg.release {
            Some(r) => b.release(r.clone()),
            None => b,
        },
        1 => match cfg.epoch {
            Some(e) => b.epoch(e),
            None => b,
        },
        2 => match &cfg.description {
            Some(x) => b.description(x.clone()),
            None => b,
        },
        3 => match &cfg.vendor {
            Some(x) => b.vendor(x.clone()),
            None => b,
        },
        4 => match &cfg.packager {
            Some(x) => b.packager(x.clone()),
            None => b,
        },
        5 => match &cfg.group {
            Some(x) => b.group(x.clone()),
            None => b,
        },
        6 => match &cfg.url {
            Some(x) => b.url(x.clone()),
            None => b,
        },
        7 => match &cfg.vcs {
            Some(x) => b.vcs(x.clone()),
            None => b,
        },
        8 => match &cfg.cookie {
            Some(x) => b.cookie(x.clone()),
            None => b,
        },
        9 => match &cfg.build_host {
            Some(x) => b.build_host(x.clone()),
            None => b,
        },
        10 => match cfg.source_date {
            // the setter is called twice in some configurations (a later date first): the last call counts
            Some(t) if cfg.call_order_seed.map(|s| s % 3 == 0).unwrap_or(false) => b.source_date(t.saturating_add(100_000_000)).source_date(instant(cfg.time_form, t)),
            Some(t) => b.source_date(instant(cfg.time_form, t)),
            None => b,
        },
        _ => match compression_of(cfg) {
            Some(c) => b.compression(c),
            None => b,
        },
    }
}

/// Build a configuration (sources are created in `dir`).
pub fn build(cfg: &BuildCfg, dir: &Path) -> Result<rpm::Package, rpm::Error> {
    let sources = materialize_sources(cfg, dir);
    let b = builder_for(cfg, &sources)?;
    if cfg.disturb_sources != 0 {
        disturb(&sources, cfg.disturb_sources);
    }
    rpm::verif_hooks::set_force_large_files(cfg.large_files);
    let r = b.build();
    rpm::verif_hooks::set_force_large_files(false);
    r
}

pub fn build_signed<S: rpm::signature::Signing<Signature = Vec<u8>>>(cfg: &BuildCfg, dir: &Path, signer: S) -> Result<rpm::Package, rpm::Error> {
    let sources = materialize_sources(cfg, dir);
    let b = builder_for(cfg, &sources)?;
    rpm::verif_hooks::set_force_large_files(cfg.large_files);
    let r = b.build_and_sign(signer);
    rpm::verif_hooks::set_force_large_files(false);
    r
}

// ---------------------------------------------------------------------------------------------
// generator

const STRINGS: [&str; 20] = [
    "ends in a line feed\n",
    "ends in two\n\n",
    "#!/bin/sh\r\necho dos line ends\r\n",
    "#! \necho bare shebang",
    "#!\t\n",
    "\n",
    "",
    "x",
    "plain ascii text",
    "two\nlines",
    " leading and trailing ",
    "grüße, мир, 日本語",
    "tab\tseparated",
    "https://example.org/a?b=c&d=e",
    "Max Mustermann <max@example.com>",
    "emoji 🎁 package",
    "line1\r\nline2\n\nline4",
    "%{macro} $VAR `cmd` \\n",
    "quote\"s and 'apostrophes'",
    "git:repo=example_repo:branch=main:sha=0123456789abcdef",
];

pub fn rand_string(r: &mut Rng) -> String {
    match r.below(12) {
        0 => "y".repeat(1024),
        1 => {
            let n = r.usize(40);
            (0..n).map(|_| *r.pick(&['a', 'b', ' ', 'é', '\n', '-', '0', '/', 'ß', '字'])).collect()
        }
        _ => STRINGS[r.usize(STRINGS.len())].to_string(),
    }
}

fn rand_nonempty(r: &mut Rng) -> String {
    loop {
        let s = rand_string(r);
        if !s.is_empty() {
            return s;
        }
    }
}

const SIZES: [usize; 22] = [0, 1, 2, 3, 4, 5, 6, 7, 8, 9, 10, 11, 12, 13, 100, 1023, 4095, 4096, 4097, 65535, 65536, 65537];
const USERS: [&str; 7] = ["root", "alice", "bob", "www-data", "svc_1", "nobody", "ünï"];
const COMPONENTS: [&str; 15] = ["usr", "bin", "etc", "lib64", "share", "a", "b.d", "with space", "ünï", "x-1.0", "opt", "_", ".config", "..data", "...",];

pub struct GenOpts {
    pub max_files: usize,
    /// probability (0..=100) that a file is large (1-3 MiB)
    pub big_percent: u64,
    pub big_bytes: (usize, usize),
    pub with_source_date: Option<bool>,
    pub multi_owner_bias: bool,
    pub all_levels: bool,
    pub regular_only: bool,
}

impl Default for GenOpts {
    fn default() -> Self {
        GenOpts { max_files: 6, big_percent: 0, big_bytes: (1 << 20, 3 << 20), with_source_date: None, multi_owner_bias: false, all_levels: true, regular_only: false }
    }
}

pub fn rand_compression(r: &mut Rng, all_levels: bool) -> Option<(String, i64)> {
    match r.below(11) {
        0 => None,
        1 | 2 => Some(("none".into(), 0)),
        3 | 4 => Some(("gzip".into(), if all_levels { r.below(10) as i64 } else { 6 })),
        5 | 6 => Some(("zstd".into(), if all_levels { 1 + r.below(22) as i64 } else { 3 })),
        7 | 8 => Some(("xz".into(), if all_levels { r.below(10) as i64 } else { 2 })),
        _ => Some(("bzip2".into(), if all_levels { 1 + r.below(9) as i64 } else { 5 })),
    }
}

pub fn rand_dest(r: &mut Rng, used: &mut std::collections::BTreeSet<String>, idx: usize) -> String {
    loop {
        let depth = r.usize(6);
        let mut comps: Vec<String> = (0..depth).map(|_| COMPONENTS[r.usize(COMPONENTS.len())].to_string()).collect();
        comps.push(match r.below(6) {
            0 => format!("f{idx}"),
            1 => format!("file {idx}.txt"),
            2 => format!("{}-{idx}", "n".repeat(1 + r.usize(40))),
            3 => format!("ü{idx}.conf"),
            4 if r.chance(1, 2) => format!(".hidden{idx}"),
            // a file that is called like the end marker of the archive format
            5 if r.chance(1, 3) => "TRAILER!!!".to_string(),
            _ => format!("{}{idx}", COMPONENTS[r.usize(COMPONENTS.len())]),
        });
        let path = format!("/{}", comps.join("/"));
        // a destination must not be a prefix directory of another one / duplicate
        if used.iter().any(|u| u == &path || u.starts_with(&format!("{path}/")) || path.starts_with(&format!("{u}/"))) {
            continue;
        }
        used.insert(path.clone());
        let spelled = if r.chance(1, 3) { format!(".{path}") } else { path };
        // now and then the same destination with one separator doubled ("/etc//x", ".//a/b")
        return if r.chance(1, 8) { respell_with_double_separator(&spelled, r) } else { spelled };
    }
}

pub fn gen_cfg(r: &mut Rng, o: &GenOpts) -> BuildCfg {
    let mut cfg = BuildCfg {
        // now and then a name that fills or overflows the 66-byte name field of the lead
        name: if r.chance(1, 10) {
            let n = [64usize, 65, 66, 67, 80, 200][r.usize(6)];
            if r.bool() { "n".repeat(n) } else { format!("{}{}", "m".repeat(n - 2), ["é", "ü"][r.usize(2)]) }
        } else {
            ["pkg", "my-package", "lib.foo2", "a", "x_y+z"][r.usize(5)].to_string()
        },
        version: ["1", "1.0.0", "2.3~rc1", "0.0.1^git1", "20240101"][r.usize(5)].to_string(),
        license: ["MIT", "Apache-2.0 OR MIT", "GPL-2.0-or-later"][r.usize(3)].to_string(),
        arch: ["x86_64", "noarch", "aarch64"][r.usize(3)].to_string(),
        summary: rand_nonempty(r),
        ..Default::default()
    };
    let opt = |r: &mut Rng| if r.bool() { Some(rand_string(r)) } else { None };
    cfg.release = if r.bool() { Some(["1", "2.el9", "0.1.fc38", "15.el7_9"][r.usize(4)].to_string()) } else { None };
    cfg.epoch = if r.bool() { Some([0u32, 1, 7, u32::MAX][r.usize(4)]) } else { None };
    cfg.description = opt(r);
    cfg.vendor = opt(r);
    cfg.packager = opt(r);
    cfg.group = opt(r);
    cfg.url = opt(r);
    cfg.vcs = opt(r);
    cfg.cookie = opt(r);
    cfg.build_host = opt(r);
    let sd = match o.with_source_date {
        Some(b) => b,
        None => r.bool(),
    };
    cfg.source_date = if sd { Some([1_600_000_000u32, 1, 946_684_800, 1_700_000_000, 0, 1_600_000_000][r.usize(6)]) } else { None };
    cfg.compression = rand_compression(r, o.all_levels);

    let nfiles = r.usize(o.max_files + 1);
    let mut used = std::collections::BTreeSet::new();
    let owner_pool = if o.multi_owner_bias { 7 } else { 3 };
    for i in 0..nfiles {
        let dest = rand_dest(r, &mut used, i);
        let big = r.below(100) < o.big_percent;
        let size = if big { o.big_bytes.0 + r.usize(o.big_bytes.1 - o.big_bytes.0 + 1) } else { SIZES[r.usize(SIZES.len())] };
        let kind = if o.regular_only { 0 } else { r.below(10) };
        let (mode, symlink, size, content_kind) = match kind {
            // symlink
            0 if !o.regular_only && r.bool() => (Some(0o120000 | 0o777), Some(["../target", "/etc/alternatives/x", "rel", "ünï/ö", "//fileserver/share/x", "a//b", "./c/../d/"][r.usize(7)].to_string()), 0usize, "zero"),
            // directory entry
            1 if !o.regular_only => (Some(0o040000 | [0o755, 0o700, 0o1777, 0o2775][r.usize(4)]), None, 0usize, "zero"),
            // explicit regular mode
            2..=5 => (Some(0o100000 | [0o644, 0o755, 0o600, 0o4755, 0o2755, 0o1644, 0o7777, 0o000, 0o444, 0o664, 0o666, 0o660][r.usize(12)]), None, size, if r.bool() { "noise" } else { "text" }),
            // inherited
            _ => (None, None, size, if r.bool() { "noise" } else { "text" }),
        };
        let mtime_base = cfg.source_date.unwrap_or(1_600_000_000) as i64;
        let mtime = match r.below(6) {
            // a time in the future of this host's clock (clock skew, far-future dates)
            5 => [4_000_000_000i64, 2_000_000_000, (1i64 << 32) - 1][r.usize(3)],
            0 => mtime_base - 1 - r.below(1_000_000) as i64,
            1 => mtime_base + 1 + r.below(1_000_000) as i64,
            2 => mtime_base,
            3 => r.below(1 << 31) as i64,
            _ => 1_500_000_000 + r.below(300_000_000) as i64,
        }
        .clamp(0, (1i64 << 32) - 1);
        let mut flags = Vec::new();
        for fl in ["doc", "config", "noreplace", "ghost", "license", "readme"] {
            if r.chance(1, 8) {
                flags.push(fl.to_string());
            }
        }
        cfg.files.push(FileCfg {
            dest,
            content_kind: content_kind.into(),
            size,
            content_seed: r.next(),
            mode,
            source_perm: [0o644, 0o755, 0o600, 0o640, 0o444, 0o775, 0o4755, 0o2755, 0o1644, 0o6711][r.usize(10)],
            user: if r.chance(2, 3) { Some(USERS[r.usize(owner_pool)].to_string()) } else { None },
            group: if r.chance(2, 3) { Some(USERS[r.usize(owner_pool)].to_string()) } else { None },
            flags,
            caps: if r.chance(1, 6) { Some(["cap_net_admin,cap_net_raw+p", "cap_chown=e", "all=eip", "=ep cap_sys_admin-e", "cap_setuid+ep", "CAP_NET_BIND_SERVICE=ep", "ALL=p", "=e CAP_CHOWN-e", "Cap_Sys_Admin+ep  cap_kill=i", "cap_chown=e\tcap_kill+p "][r.usize(10)].to_string()) } else { None },
            symlink,
            mtime,
            verify: if r.chance(1, 5) { Some([0u32, 0xffff_ffff, 1 | 2 | 4, 1 << 6][r.usize(4)]) } else { None },
        });
    }
    // "twin" files: same size and same source mtime as an earlier regular file, different content
    if cfg.files.len() >= 2 && r.chance(1, 3) {
        let regs: Vec<usize> = (0..cfg.files.len()).filter(|i| cfg.files[*i].symlink.is_none() && cfg.files[*i].mode.map(|m| m & 0o170000 == 0o100000).unwrap_or(true)).collect();
        if regs.len() >= 2 {
            let (a, b) = (regs[0], regs[regs.len() - 1]);
            cfg.files[b].size = cfg.files[a].size;
            cfg.files[b].mtime = cfg.files[a].mtime;
            cfg.files[b].content_kind = cfg.files[a].content_kind.clone();
            cfg.files[b].content_seed = cfg.files[a].content_seed ^ 0x5555;
        }
    }
    let ndeps = r.usize(9);
    for _ in 0..ndeps {
        let ctor = ["any", "eq", "less", "less_eq", "greater", "greater_eq", "script_pre", "script_post", "raw"][r.usize(9)];
        cfg.deps.push(DepCfg {
            kind: r.below(8) as u8,
            ctor: ctor.into(),
            name: ["wget", "libfoo.so.1()(64bit)", "/bin/sh", "config(pkg)", "ünï", "(a or b)"][r.usize(6)].to_string(),
            version: ["1.0", "2:3.4-5", "", "1~rc"][r.usize(4)].to_string(),
            raw_flags: [0u32, 8, 1 << 6, (1 << 24) | 8, 0x1234_5678][r.usize(5)],
        });
    }
    for which in 0..9u8 {
        if r.chance(1, 4) {
            cfg.scripts.push(ScriptCfg {
                which,
                script: rand_string(r),
                flags: if r.bool() { Some([0u32, 1, 2, 4, 7][r.usize(5)]) } else { None },
                prog: if r.bool() { Some(match r.below(3) { 0 => vec!["/bin/sh".into()], 1 => vec!["/usr/bin/lua".into(), "-x".into(), "ü".into()], _ => vec!["<lua>".into()] }) } else { None },
            });
        }
    }
    cfg.late_setters = r.chance(1, 3);
    cfg.time_form = if r.chance(1, 3) { 1 + r.below(4) as u8 } else { 0 };
    cfg.call_order_seed = if r.chance(1, 3) { Some(r.next()) } else { None };
    let ncl = r.usize(4);
    for i in 0..ncl {
        cfg.changelog.push((format!("Author {i} <a{i}@example.com> - 1.{i}-1"), rand_string(r), [0u32, 840_000_000, 1_681_411_811, u32::MAX][r.usize(4)]));
    }
    // dependencies that spell out what the builder adds by itself (the package's own name / name(arch) at
    // its own version, an rpmlib() requirement), somewhere among the others: what the caller supplied must
    // still come back at the place it was supplied (seeded change C06-s). Drawn last: the random stream of
    // everything above stays what it was.
    if r.chance(1, 3) {
        let n = 1 + r.usize(2);
        for _ in 0..n {
            let own = match r.below(4) {
                0 | 1 => DepCfg { kind: 0, ctor: "eq".into(), name: cfg.name.clone(), version: cfg.version.clone(), raw_flags: 0 },
                2 => DepCfg { kind: 0, ctor: "eq".into(), name: format!("{}({})", cfg.name, cfg.arch), version: cfg.version.clone(), raw_flags: 0 },
                _ => DepCfg { kind: 1, ctor: "raw".into(), name: "rpmlib(CompressedFileNames)".into(), version: "3.0.4-1".into(), raw_flags: (1 << 24) | 2 | 8 },
            };
            // never the same one twice: what a builder does with a dependency given twice is not judged
            if cfg.deps.contains(&own) {
                continue;
            }
            let at = r.usize(cfg.deps.len() + 1);
            cfg.deps.insert(at, own);
        }
        // and something of the same kind behind it
        cfg.deps.push(DepCfg { kind: 0, ctor: "any".into(), name: "after-own".into(), version: String::new(), raw_flags: 0 });
        cfg.deps.push(DepCfg { kind: 1, ctor: "any".into(), name: "after-own-req".into(), version: String::new(), raw_flags: 0 });
    }
    cfg
}

/// canonical installed path of a destination ("./a/b" and "/a/b" both mean "/a/b")
pub fn installed_path(dest: &str) -> String {
    let p = dest.strip_prefix('.').unwrap_or(dest);
    // repeated separators do not change which file is meant
    String::from_utf8(crate::model::codec::collapse_slashes(p.as_bytes())).unwrap_or_else(|_| p.to_string())
}

/// the same destination spelled with one separator doubled ("/etc//x", "//opt/x", ".//a/b")
pub fn respell_with_double_separator(dest: &str, r: &mut Rng) -> String {
    let at: Vec<usize> = dest.char_indices().filter(|(_, c)| *c == '/').map(|(i, _)| i).collect();
    if at.is_empty() {
        return dest.to_string();
    }
    let i = at[r.usize(at.len())];
    format!("{}/{}", &dest[..i], &dest[i..])
}

/// the mode word the header must carry for a file
pub fn expected_mode(f: &FileCfg) -> u16 {
    match f.mode {
        Some(m) => m as u16,
        None => (0o100000 | (f.source_perm & 0o7777)) as u16,
    }
}

pub const KEY_FILES: [(&str, &str, &str, Option<&str>); 5] = [
    ("rsa4096", "tests/assets/signing_keys/secret_rsa4096.asc", "tests/assets/signing_keys/public_rsa4096.asc", None),
    ("rsa3072-protected", "tests/assets/signing_keys/secret_rsa3072_protected.asc", "tests/assets/signing_keys/public_rsa3072_protected.asc", Some("thisisN0Tasecuredpassphrase")),
    ("ed25519", "tests/assets/signing_keys/secret_ed25519.asc", "tests/assets/signing_keys/public_ed25519.asc", None),
    ("ecdsa-p256", "tests/assets/signing_keys/secret_ecdsa_p256.asc", "tests/assets/signing_keys/public_ecdsa_p256.asc", None),
    // the 2048-bit RSA key of the unit tests: its signature makes the signature store a multiple of 8 bytes
    ("rsa2048", "test_assets/secret_key.asc", "test_assets/public_key.asc", None),
];

pub struct Key {
    pub name: &'static str,
    pub signer: rpm::signature::pgp::Signer,
    pub verifier: rpm::signature::pgp::Verifier,
    pub public_asc: Vec<u8>,
}

pub fn load_keys(repo: &Path) -> Result<Vec<Key>, String> {
    let mut v = Vec::new();
    for (name, sec, pubk, pass) in KEY_FILES {
        let s = std::fs::read(repo.join(sec)).map_err(|e| format!("{sec}: {e}"))?;
        let p = std::fs::read(repo.join(pubk)).map_err(|e| format!("{pubk}: {e}"))?;
        let mut signer = rpm::signature::pgp::Signer::load_from_asc_bytes(&s).map_err(|e| format!("{sec}: {e}"))?;
        if let Some(pw) = pass {
            signer = signer.with_key_passphrase(pw);
        }
        let verifier = rpm::signature::pgp::Verifier::load_from_asc_bytes(&p).map_err(|e| format!("{pubk}: {e}"))?;
        v.push(Key { name, signer, verifier, public_asc: p });
    }
    Ok(v)
}

pub const ASSETS: [&str; 6] = [
    "test_assets/389-ds-base-devel-1.3.8.4-15.el7.x86_64.rpm",
    "test_assets/freesrp-udev-0.3.0-1.25.x86_64.rpm",
    "test_assets/ima_signed.rpm",
    "test_assets/rpm-sign-4.15.1-1.fc31.x86_64.rpm",
    "test_assets/fixture_packages/rpm-empty-0-0.x86_64.rpm",
    "test_assets/fixture_packages/rpm-empty-0-0.src.rpm",
];

pub fn pkg_bytes(p: &rpm::Package) -> Result<Vec<u8>, rpm::Error> {
    let mut v = Vec::new();
    p.write(&mut v)?;
    Ok(v)
}


/// A key pair generated at run time whose PRIMARY key certifies and whose SUBKEY signs (none of the
/// repository's test keys has a signing subkey, so the subkey branch of the verifier is otherwise
/// never taken). Both are Ed25519 (legacy EdDSA packets, which is what the library supports).
pub struct SubKeyPair {
    pub primary: Key,
    pub sub_signer: rpm::signature::pgp::Signer<pgp::SignedSecretSubKey>,
    pub sub_id: String,
}

pub fn generate_key_with_signing_subkey() -> Result<SubKeyPair, String> {
    use pgp::composed::{KeyType, SecretKeyParamsBuilder, SubkeyParamsBuilder};
    use pgp::types::PublicKeyTrait;
    let mut rng = rand::thread_rng();
    let sub = SubkeyParamsBuilder::default().key_type(KeyType::EdDSALegacy).can_sign(true).passphrase(None).build().map_err(|e| e.to_string())?;
    let params = SecretKeyParamsBuilder::default()
        .key_type(KeyType::EdDSALegacy)
        .can_certify(true)
        .can_sign(true)
        .primary_user_id("verification harness <harness@example.org>".into())
        .passphrase(None)
        .subkey(sub)
        .build()
        .map_err(|e| e.to_string())?;
    let secret = params.generate(&mut rng).map_err(|e| e.to_string())?;
    let signed = secret.sign(&mut rng, || String::new()).map_err(|e| e.to_string())?;
    let secret_asc = signed.to_armored_bytes(None.into()).map_err(|e| e.to_string())?;
    let subkey = signed.secret_subkeys.first().cloned().ok_or("no subkey generated")?;
    let sub_id = hex::encode(subkey.key_id().as_ref());
    let public: pgp::SignedPublicKey = signed.into();
    let public_asc = public.to_armored_bytes(None.into()).map_err(|e| e.to_string())?;
    let signer = rpm::signature::pgp::Signer::load_from_asc_bytes(&secret_asc).map_err(|e| format!("generated secret key: {e}"))?;
    let verifier = rpm::signature::pgp::Verifier::load_from_asc_bytes(&public_asc).map_err(|e| format!("generated public key: {e}"))?;
    let sub_signer = rpm::signature::pgp::Signer::new(subkey).map_err(|e| format!("subkey signer: {e}"))?;
    Ok(SubKeyPair { primary: Key { name: "generated-ed25519", signer, verifier, public_asc }, sub_signer, sub_id })
}
