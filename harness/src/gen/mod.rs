pub mod build;
pub mod corpus;
pub mod hdr;
