pub mod build;
