//! Package corpus shared by C01/C08/C09/C16: for a case index, one builder configuration and the
//! packages that the library emits from it (built, signed, cleared, re-signed); plus the asset
//! packages passed through sign / clear.

use super::build::*;
use crate::model::strict::Origin;
use crate::util::par::guard;
use crate::util::rng::Rng;
use std::path::Path;

pub struct Item {
    pub label: String,
    pub origin: Origin,
    pub cfg: Option<BuildCfg>,
    pub pkg: rpm::Package,
    pub bytes: Vec<u8>,
}

pub enum CorpusErr {
    Panic(String, String),
    Err(String, String),
}

fn emit(out: &mut Vec<Item>, label: String, origin: Origin, cfg: Option<&BuildCfg>, pkg: &rpm::Package) -> Result<(), CorpusErr> {
    // every other item is collected through a writer that implements write()/flush() only and takes
    // five bytes per call: what such a writer receives is "the emitted package" just as well
    let through_plain_writer = out.len() % 2 == 1;
    let written = guard(|| {
        if through_plain_writer {
            let mut w = crate::util::PlainWriter { out: Vec::new(), max: 5 };
            pkg.write(&mut w).map(|_| w.out)
        } else {
            pkg_bytes(pkg)
        }
    });
    match written {
        Ok(Ok(bytes)) => {
            out.push(Item { label, origin, cfg: cfg.cloned(), pkg: pkg.clone(), bytes });
            Ok(())
        }
        Ok(Err(e)) => Err(CorpusErr::Err(format!("write:{label}"), e.to_string())),
        Err(p) => Err(CorpusErr::Panic(format!("write:{}", p.site()), p.message)),
    }
}

/// built -> signed(k) -> cleared -> signed(k2); every stage is emitted
pub fn built_items(cfg: &BuildCfg, dir: &Path, keys: &[Key], rng: &mut Rng, with_sign: bool) -> Result<Vec<Item>, CorpusErr> {
    let mut out = Vec::new();
    let pkg = match guard(|| build(cfg, dir)) {
        Ok(Ok(p)) => p,
        Ok(Err(e)) => return Err(CorpusErr::Err("build".into(), e.to_string())),
        Err(p) => return Err(CorpusErr::Panic(format!("build:{}", p.site()), p.message)),
    };
    emit(&mut out, "built".into(), Origin::Builder, Some(cfg), &pkg)?;
    if with_sign && !keys.is_empty() {
        let mut p = pkg.clone();
        // cheap keys most of the time
        let k1 = &keys[[2usize, 3, 4, 3, 0, 2, 4, 1][rng.usize(8)] % keys.len()];
        let ts = cfg.source_date.unwrap_or(1_600_000_000);
        match guard(|| p.sign_with_timestamp(&k1.signer, ts)) {
            Ok(Ok(())) => emit(&mut out, format!("built+sign({})", k1.name), Origin::Builder, Some(cfg), &p)?,
            Ok(Err(e)) => return Err(CorpusErr::Err("sign".into(), e.to_string())),
            Err(pn) => return Err(CorpusErr::Panic(format!("sign:{}", pn.site()), pn.message)),
        }
        // a second signature on top of the first, by a key of another family, without a clear in between
        {
            let mut q = p.clone();
            let k2 = &keys[[3usize, 2, 0, 4][rng.usize(4)] % keys.len()];
            match guard(|| q.sign_with_timestamp(&k2.signer, ts)) {
                Ok(Ok(())) => emit(&mut out, format!("built+sign({})+sign({})", k1.name, k2.name), Origin::Builder, Some(cfg), &q)?,
                Ok(Err(e)) => return Err(CorpusErr::Err("sign".into(), e.to_string())),
                Err(pn) => return Err(CorpusErr::Panic(format!("sign:{}", pn.site()), pn.message)),
            }
        }
        // a signing attempt that FAILS must leave a package that is as valid as before
        {
            let mut q = p.clone();
            match guard(|| q.sign_with_timestamp(FailingSigner(rng.bool()), ts)) {
                Ok(Err(_)) => emit(&mut out, format!("built+sign({})+failed-sign", k1.name), Origin::Builder, Some(cfg), &q)?,
                Ok(Ok(())) => return Err(CorpusErr::Err("sign".into(), "a signer that reports an error signs successfully".into())),
                Err(pn) => return Err(CorpusErr::Panic(format!("sign:{}", pn.site()), pn.message)),
            }
            let mut u = pkg.clone();
            if let Ok(Err(_)) = guard(|| u.sign_with_timestamp(FailingSigner(false), ts)) {
                emit(&mut out, "built+failed-sign".into(), Origin::Builder, Some(cfg), &u)?;
            }
        }
        match guard(|| p.clear_signatures()) {
            Ok(Ok(())) => emit(&mut out, "built+sign+clear".into(), Origin::Builder, Some(cfg), &p)?,
            Ok(Err(e)) => return Err(CorpusErr::Err("clear".into(), e.to_string())),
            Err(pn) => return Err(CorpusErr::Panic(format!("clear:{}", pn.site()), pn.message)),
        }
        if rng.bool() {
            let k2 = &keys[[3usize, 2, 4][rng.usize(3)] % keys.len()];
            match guard(|| p.sign_with_timestamp(&k2.signer, ts)) {
                Ok(Ok(())) => emit(&mut out, format!("built+sign+clear+sign({})", k2.name), Origin::Builder, Some(cfg), &p)?,
                Ok(Err(e)) => return Err(CorpusErr::Err("sign".into(), e.to_string())),
                Err(pn) => return Err(CorpusErr::Panic(format!("sign:{}", pn.site()), pn.message)),
            }
        }
    }
    Ok(out)
}

/// asset as parsed, asset signed, asset cleared
pub fn asset_items(repo: &Path, keys: &[Key]) -> Vec<Result<Item, String>> {
    let mut out = Vec::new();
    for rel in ASSETS {
        let bytes = match std::fs::read(repo.join(rel)) {
            Ok(b) => b,
            Err(e) => {
                out.push(Err(format!("{rel}: {e}")));
                continue;
            }
        };
        let pkg = match guard(|| rpm::Package::parse(&mut &bytes[..])) {
            Ok(Ok(p)) => p,
            Ok(Err(e)) => {
                out.push(Err(format!("{rel}: {e}")));
                continue;
            }
            Err(p) => {
                out.push(Err(format!("{rel}: panic {}", p.message)));
                continue;
            }
        };
        let mut v = Vec::new();
        let _ = emit(&mut v, format!("asset:{rel}"), Origin::Foreign, None, &pkg);
        for k in keys.iter().skip(2) {
            let mut p = pkg.clone();
            if let Ok(Ok(())) = guard(|| p.sign_with_timestamp(&k.signer, 1_600_000_000u32)) {
                let _ = emit(&mut v, format!("asset:{rel}+sign({})", k.name), Origin::Foreign, None, &p);
            } else {
                out.push(Err(format!("{rel}: signing with {} failed", k.name)));
            }
        }
        let mut p = pkg.clone();
        if let Ok(Ok(())) = guard(|| p.clear_signatures()) {
            let _ = emit(&mut v, format!("asset:{rel}+clear"), Origin::Foreign, None, &p);
        } else {
            out.push(Err(format!("{rel}: clear_signatures failed")));
        }
        out.extend(v.into_iter().map(Ok));
    }
    out
}


/// A signer that always reports an error (after reading the data or without reading it).
#[derive(Debug)]
pub struct FailingSigner(pub bool);

impl rpm::signature::Signing for FailingSigner {
    type Signature = Vec<u8>;
    fn sign(&self, mut data: impl std::io::Read, _t: rpm::Timestamp) -> Result<Vec<u8>, rpm::Error> {
        if self.0 {
            let mut sink = Vec::new();
            let _ = data.read_to_end(&mut sink);
        }
        Err(rpm::Error::from(std::io::Error::other("scripted signer failure")))
    }
    fn algorithm(&self) -> rpm::signature::AlgorithmType {
        rpm::signature::AlgorithmType::RSA
    }
}
