//! G-HDR: hand-encoded packages built with the harness's own encoder (model/codec.rs).
//! "Well-formed" = every offset in range, every string terminated, every count fits, so that a
//! structurally correct parser must accept it; everything else (tags, order, duplicates, types,
//! lead fields, reserved bytes, non-UTF-8 data, store size mod 8, payload) is arbitrary.

use crate::model::codec::*;
use crate::util::rng::Rng;

#[derive(Clone, Debug)]
pub struct HdrSpec {
    pub reserved: [u8; 4],
    pub items: Vec<(u32, Val)>,
    pub region: Option<u32>,
    /// extra entries that alias the data of an existing entry under another tag
    pub aliases: Vec<(u32, usize)>,
    /// bytes appended to the store that no entry refers to
    pub trailing: Vec<u8>,
    pub shuffle_seed: Option<u64>,
    /// with a region: the last `dribbles` items are index entries BEHIND the region (their data
    /// follows the region trailer, the trailer covers fewer entries than the intro announces)
    pub dribbles: usize,
    /// without a region: integer values at offsets that are not multiples of their size
    pub misalign: bool,
}

pub fn enc_spec(s: &HdrSpec) -> Vec<u8> {
    let (mut entries, mut store) = match s.region {
        Some(t) if s.dribbles > 0 => layout_with_region_and_dribbles(t, &s.items, s.dribbles),
        Some(t) => layout_with_region(t, &s.items),
        None if s.misalign => layout_misaligned(&s.items),
        None => layout(&s.items),
    };
    let first_item = if s.region.is_some() { 1 } else { 0 };
    for (tag, of) in &s.aliases {
        if let Some(e) = entries.get(first_item + *of).cloned() {
            entries.push(RawEntry { tag: *tag, ..e });
        }
    }
    if let Some(seed) = s.shuffle_seed {
        let mut r = Rng::new(seed);
        let start = first_item;
        r.shuffle(&mut entries[start..]);
    }
    if s.region.is_some() && (!s.aliases.is_empty()) && s.dribbles == 0 {
        // keep the region trailer consistent with the final entry count
        let il = entries.len() as i32;
        let off = entries[0].offset as usize;
        store[off + 8..off + 12].copy_from_slice(&(-(il * 16)).to_be_bytes());
    }
    store.extend_from_slice(&s.trailing);
    enc_header_raw(s.reserved, entries.len() as u32, store.len() as u32, &entries, &store)
}

pub fn rand_bytes_str(r: &mut Rng) -> Vec<u8> {
    match r.below(10) {
        // text with white space and line ends at its edges and CR LF pairs inside: all of it is data
        8 => [&b"ends in a line feed\n"[..], b"two of them\n\n", b"  leading and trailing blanks \t", b"dos\r\nline ends\r\n", b"\n", b" "][r.usize(6)].to_vec(),
        9 => b"#! \nscript whose first line is a bare shebang".to_vec(),
        0 => Vec::new(),
        1 => vec![0xff, 0xfe, b'a'],                   // invalid UTF-8
        2 => vec![0xc3, 0x28],                         // invalid 2-byte sequence
        3 => "grüße 日本".as_bytes().to_vec(),
        4 => b"x".repeat(1 + r.usize(200)),
        _ => {
            let n = r.usize(12);
            (0..n).map(|_| 1 + r.below(255) as u8).collect()
        }
    }
}

pub fn rand_val(r: &mut Rng, typ: u32) -> Val {
    let n = match r.below(6) {
        0 => 0,
        1 | 2 => 1,
        3 => 2,
        _ => 1 + r.usize(5),
    };
    match typ {
        0 => Val::Null,
        1 => Val::Char(r.bytes(n)),
        2 => Val::Int8(r.bytes(n)),
        3 => Val::Int16((0..n).map(|_| r.next() as u16).collect()),
        4 => Val::Int32((0..n).map(|_| r.next() as u32).collect()),
        5 => Val::Int64((0..n).map(|_| r.next()).collect()),
        6 => Val::Str(rand_bytes_str(r)),
        7 => Val::Bin(r.bytes(n * 3)),
        8 => Val::StrArray((0..n).map(|_| rand_bytes_str(r)).collect()),
        _ => Val::I18n((0..n).map(|_| rand_bytes_str(r)).collect()),
    }
}

pub const MAIN_TAGS: [u32; 40] = [
    tag::NAME, tag::VERSION, tag::RELEASE, tag::EPOCH, tag::SUMMARY, tag::DESCRIPTION, tag::BUILDTIME, tag::BUILDHOST, tag::SIZE, tag::VENDOR,
    tag::LICENSE, tag::PACKAGER, tag::GROUP, tag::URL, tag::ARCH, tag::FILESIZES, tag::FILEMODES, tag::FILEMTIMES, tag::FILEDIGESTS, tag::FILELINKTOS,
    tag::FILEFLAGS, tag::FILEUSERNAME, tag::FILEGROUPNAME, tag::SOURCERPM, tag::PROVIDENAME, tag::REQUIREFLAGS, tag::REQUIRENAME, tag::REQUIREVERSION, tag::DIRINDEXES, tag::BASENAMES,
    tag::DIRNAMES, tag::PAYLOADCOMPRESSOR, tag::PAYLOADDIGEST, tag::PAYLOADDIGESTALGO, tag::CHANGELOGTIME, tag::CHANGELOGNAME, tag::CHANGELOGTEXT, tag::PREIN, tag::LONGSIZE, tag::FILECAPS,
];
pub const SIG_TAGS: [u32; 12] = [
    tag::SIG_SIZE, tag::SIG_PGP, tag::SIG_MD5, tag::SIG_PAYLOADSIZE, tag::SIG_DSA, tag::SIG_RSA, tag::SIG_SHA1, tag::SIG_SHA256, tag::SIG_FILESIGNATURES, tag::SIG_OPENPGP, tag::SIG_LONGSIGSIZE, 1005,
];

pub fn rand_tag(r: &mut Rng, pool: &[u32]) -> u32 {
    match r.below(10) {
        0 => r.next() as u32,        // unknown
        1 => [0u32, 1, 61, 64, 99, 100, 999, 4_000_000_000][r.usize(8)],
        _ => pool[r.usize(pool.len())],
    }
}

pub fn rand_spec(r: &mut Rng, pool: &[u32], region: u32) -> HdrSpec {
    let n = match r.below(8) {
        0 => 0,
        1 => 1,
        2 => 50,
        _ => 1 + r.usize(12),
    };
    let mut items = Vec::new();
    for _ in 0..n {
        let t = rand_tag(r, pool);
        let typ = r.below(10) as u32;
        items.push((t, rand_val(r, typ)));
    }
    if r.chance(1, 4) && !items.is_empty() {
        // duplicate a tag
        let d = items[r.usize(items.len())].0;
        let typ = r.below(10) as u32;
        items.push((d, rand_val(r, typ)));
    }
    let dribbles = if r.chance(1, 5) && !items.is_empty() { 1 + r.usize(items.len().min(3)) } else { 0 };
    let aliases = if dribbles == 0 && r.chance(1, 4) && !items.is_empty() { vec![(rand_tag(r, pool), r.usize(items.len()))] } else { vec![] };
    HdrSpec {
        reserved: if r.chance(1, 3) { [r.next() as u8, r.next() as u8, r.next() as u8, r.next() as u8] } else { [0; 4] },
        items,
        region: if r.bool() { Some(region) } else { None },
        aliases,
        trailing: if r.chance(1, 3) { let k = r.usize(9); r.bytes(k) } else { vec![] },
        shuffle_seed: if dribbles == 0 && r.chance(1, 3) { Some(r.next()) } else { None },
        dribbles,
        misalign: r.chance(1, 5),
    }
}

pub fn rand_lead(r: &mut Rng) -> Vec<u8> {
    let mut l = enc_lead(["pkg", "a-very-long-package-name-that-exceeds-the-sixty-five-byte-name-field-of-the-lead", "ünï", ""][r.usize(4)]);
    if r.bool() {
        // arbitrary lead fields (everything but the magic)
        let rnd = r.bytes(LEAD_LEN - 4);
        l[4..].copy_from_slice(&rnd);
    }
    l
}

/// A well-formed package with arbitrary content; `sig_pad_garbage` is never set here: the padding
/// after the signature header is zero (non-zero padding is a legal input too, see `with_pad`).
pub fn rand_package(r: &mut Rng) -> Vec<u8> {
    let lead = rand_lead(r);
    let sig = enc_spec(&rand_spec(r, &SIG_TAGS, tag::SIG_REGION));
    let hdr = enc_spec(&rand_spec(r, &MAIN_TAGS, tag::HDR_REGION));
    let payload = match r.below(5) {
        0 => Vec::new(),
        1 => {
            let k = r.usize(64);
            r.bytes(k)
        }
        2 => {
            let mut a = crate::model::cpio::enc_newc(b"./etc/x", 0o100644, 1, b"hello");
            a.extend(crate::model::cpio::enc_trailer());
            a
        }
        3 => {
            let k = r.usize(60);
            crate::model::cpio::enc_trailer()[..k].to_vec() // truncated payload
        }
        _ => {
            let k = r.usize(9);
            vec![0u8; k]
        }
    };
    let mut pkg = enc_package(&lead, &sig, &hdr, &payload);
    if r.chance(1, 4) {
        // non-zero alignment padding after the signature header
        if let Ok(p) = walk_package(&pkg) {
            for i in p.sig.end..p.sig.end + p.sig_pad {
                pkg[i] = r.next() as u8 | 1;
            }
        }
    }
    pkg
}

/// expected output of writing a parsed package: the input with the reserved intro bytes and the
/// signature padding zeroed (computed by the independent decoder from the input itself)
pub fn masked(bytes: &[u8], metadata_only: bool) -> Result<Vec<u8>, String> {
    let p = walk_package_opt(bytes, true)?;
    let mut out = bytes.to_vec();
    out[p.sig.start + 4..p.sig.start + 8].copy_from_slice(&[0; 4]);
    out[p.hdr.start + 4..p.hdr.start + 8].copy_from_slice(&[0; 4]);
    for b in &mut out[p.sig.end..p.sig.end + p.sig_pad] {
        *b = 0;
    }
    if metadata_only {
        out.truncate(p.payload_start);
    }
    Ok(out)
}

// ---------------------------------------------------------------------------------------------
// packages with a file list (for payload iteration / extraction workloads)

#[derive(Clone, Debug)]
pub struct HFile {
    pub dir: Vec<u8>,
    pub base: Vec<u8>,
    pub mode: u16,
    pub size: u64,
    pub user: Vec<u8>,
    pub group: Vec<u8>,
    /// hex digest text (empty = none)
    pub digest: Vec<u8>,
    pub linkto: Vec<u8>,
    pub flags: u32,
    pub mtime: u32,
}

impl HFile {
    pub fn new(dir: &str, base: &str, mode: u16, content: &[u8]) -> HFile {
        let regular = mode & 0o170000 == 0o100000;
        HFile {
            dir: dir.as_bytes().to_vec(),
            base: base.as_bytes().to_vec(),
            mode,
            size: content.len() as u64,
            user: b"root".to_vec(),
            group: b"root".to_vec(),
            digest: if regular { crate::util::sha256_hex(content).into_bytes() } else { Vec::new() },
            linkto: Vec::new(),
            flags: 0,
            mtime: 1_600_000_000,
        }
    }
    pub fn path(&self) -> Vec<u8> {
        let mut p = self.dir.clone();
        p.extend_from_slice(&self.base);
        p
    }
}

/// The per-file tags of a main header for the given files (dirnames deduplicated in first-seen order).
pub fn file_items(files: &[HFile], long_sizes: bool) -> Vec<(u32, Val)> {
    if files.is_empty() {
        return vec![];
    }
    let mut dirs: Vec<Vec<u8>> = Vec::new();
    let mut idx = Vec::new();
    for f in files {
        let i = match dirs.iter().position(|d| d == &f.dir) {
            Some(i) => i,
            None => {
                dirs.push(f.dir.clone());
                dirs.len() - 1
            }
        };
        idx.push(i as u32);
    }
    let mut v = vec![
        if long_sizes { (tag::LONGFILESIZES, Val::Int64(files.iter().map(|f| f.size).collect())) } else { (tag::FILESIZES, Val::Int32(files.iter().map(|f| f.size as u32).collect())) },
        (tag::FILEMODES, Val::Int16(files.iter().map(|f| f.mode).collect())),
        (tag::FILEMTIMES, Val::Int32(files.iter().map(|f| f.mtime).collect())),
        (tag::FILEDIGESTS, Val::StrArray(files.iter().map(|f| f.digest.clone()).collect())),
        (tag::FILELINKTOS, Val::StrArray(files.iter().map(|f| f.linkto.clone()).collect())),
        (tag::FILEFLAGS, Val::Int32(files.iter().map(|f| f.flags).collect())),
        (tag::FILEUSERNAME, Val::StrArray(files.iter().map(|f| f.user.clone()).collect())),
        (tag::FILEGROUPNAME, Val::StrArray(files.iter().map(|f| f.group.clone()).collect())),
        (tag::DIRINDEXES, Val::Int32(idx)),
        (tag::BASENAMES, Val::StrArray(files.iter().map(|f| f.base.clone()).collect())),
        (tag::DIRNAMES, Val::StrArray(dirs)),
        (tag::FILEDIGESTALGO, Val::Int32(vec![8])),
    ];
    v.sort_by_key(|(t, _)| *t);
    v
}

/// A complete, valid package around a file list and a payload (region tags, sorted entries,
/// header SHA-256 and payload digest recorded).
pub fn package_with_files(name: &str, files: &[HFile], payload: &[u8], compressor: Option<&str>, long_sizes: bool) -> Vec<u8> {
    use sha2::Digest;
    let mut items: Vec<(u32, Val)> = vec![
        (tag::NAME, Val::str(name)),
        (tag::VERSION, Val::str("1.0")),
        (tag::RELEASE, Val::str("1")),
        (tag::SUMMARY, Val::i18n(&["summary"])),
        (tag::DESCRIPTION, Val::i18n(&["description"])),
        (tag::LICENSE, Val::str("MIT")),
        (tag::ARCH, Val::str("noarch")),
        (tag::OS, Val::str("linux")),
        (tag::SOURCERPM, Val::str("(none)")),
        (tag::PAYLOADFORMAT, Val::str("cpio")),
        (tag::PAYLOADDIGEST, Val::strs(&[&hex::encode(sha2::Sha256::digest(payload))])),
        (tag::PAYLOADDIGESTALGO, Val::Int32(vec![8])),
    ];
    if let Some(c) = compressor {
        items.push((tag::PAYLOADCOMPRESSOR, Val::str(c)));
    }
    items.extend(file_items(files, long_sizes));
    items.sort_by_key(|(t, _)| *t);
    let (he, hs) = layout_with_region(tag::HDR_REGION, &items);
    let hdr = enc_header(&he, &hs);
    let sig_items = vec![(tag::SIG_SHA256, Val::str(&hex::encode(sha2::Sha256::digest(&hdr))))];
    let (se, ss) = layout_with_region(tag::SIG_REGION, &sig_items);
    enc_package(&enc_lead(name), &enc_header(&se, &ss), &hdr, payload)
}
