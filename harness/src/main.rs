#![allow(dead_code)]
mod checks;
mod gen;
mod model;
mod monitor;
mod util;

use std::path::PathBuf;

#[global_allocator]
static GLOBAL: monitor::alloc::Counting = monitor::alloc::Counting;

use std::time::Instant;
use util::report::{Ctx, Tier};

fn usage() -> ! {
    eprintln!("usage: rpmverif check <Cxx> quick|thorough | subcheck <Cxx> quick|thorough <out.json> | replay <Cxx> <witness.json> | worker <kind> ... | selftest");
    std::process::exit(64);
}

fn make_ctx(id: &str, tier: &str) -> Ctx {
    let tier = match tier {
        "quick" => Tier::Quick,
        "thorough" => Tier::Thorough,
        _ => usage(),
    };
    let seed = std::env::var("VERIF_SEED").ok().and_then(|s| s.trim().parse::<i64>().ok()).unwrap_or(0) as u64;
    let verif_dir = PathBuf::from(std::env::var("VERIF_DIR").unwrap_or_else(|_| "/verif".into()));
    let repo_dir = PathBuf::from(std::env::var("VERIF_REPO").unwrap_or_else(|_| "/repo".into()));
    let threads = std::env::var("VERIF_THREADS")
        .ok()
        .and_then(|s| s.parse().ok())
        .unwrap_or_else(|| std::thread::available_parallelism().map(|n| n.get()).unwrap_or(4));
    Ctx { id: id.to_string(), tier, seed, profile: util::report::profile_name(), verif_dir, repo_dir, start: Instant::now(), threads }
}

fn main() {
    util::install_logger();
    let args: Vec<String> = std::env::args().collect();
    if args.len() < 2 {
        usage();
    }
    match args[1].as_str() {
        "check" if args.len() >= 4 => {
            util::protect_stdout();
            let ctx = make_ctx(&args[2], &args[3]);
            std::process::exit(checks::run_check(&ctx));
        }
        "subcheck" if args.len() >= 5 => {
            let ctx = make_ctx(&args[2], &args[3]);
            std::process::exit(checks::run_subcheck(&ctx, &args[4]));
        }
        "replay" if args.len() >= 4 => {
            let ctx = make_ctx(&args[2], "quick");
            std::process::exit(checks::run_replay(&ctx, &args[3]));
        }
        "worker" if args.len() >= 3 => {
            std::process::exit(monitor::worker::child_main(&args[2..]));
        }
        "buildhash" if args.len() >= 5 => {
            std::process::exit(checks::c11::buildhash_main(&args[2..]));
        }
        "extract-as" if args.len() >= 5 => {
            std::process::exit(checks::c12::extract_as_main(&args[2..]));
        }
        "selftest" => {
            std::process::exit(checks::selftest());
        }
        _ => usage(),
    }
}
