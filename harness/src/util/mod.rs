pub mod par;
pub mod report;
pub mod rng;

pub fn hex_trunc(b: &[u8], max: usize) -> String {
    if b.len() <= max {
        hex::encode(b)
    } else {
        format!("{}…(+{} bytes)", hex::encode(&b[..max]), b.len() - max)
    }
}

pub fn sha256_hex(b: &[u8]) -> String {
    use sha2::Digest;
    hex::encode(sha2::Sha256::digest(b))
}
