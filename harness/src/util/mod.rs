pub mod par;
pub mod report;
pub mod rng;

pub fn hex_trunc(b: &[u8], max: usize) -> String {
    if b.len() <= max {
        hex::encode(b)
    } else {
        format!("{}…(+{} bytes)", hex::encode(&b[..max]), b.len() - max)
    }
}

pub fn sha256_hex(b: &[u8]) -> String {
    use sha2::Digest;
    hex::encode(sha2::Sha256::digest(b))
}

/// A logger that formats every record (so that log arguments are evaluated, as they are in an
/// application that enables debug logging) and discards the text.
struct EvalLogger;
impl log::Log for EvalLogger {
    fn enabled(&self, _: &log::Metadata) -> bool {
        true
    }
    fn log(&self, record: &log::Record) {
        use std::fmt::Write;
        let mut sink = Discard;
        let _ = write!(sink, "{}", record.args());
    }
    fn flush(&self) {}
}
struct Discard;
impl std::fmt::Write for Discard {
    fn write_str(&mut self, _: &str) -> std::fmt::Result {
        Ok(())
    }
}
static LOGGER: EvalLogger = EvalLogger;
pub fn install_logger() {
    if log::set_logger(&LOGGER).is_ok() {
        log::set_max_level(log::LevelFilter::Trace);
    }
}
