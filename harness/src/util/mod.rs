pub mod par;
pub mod probe;
pub mod report;
pub mod rng;

pub fn hex_trunc(b: &[u8], max: usize) -> String {
    if b.len() <= max {
        hex::encode(b)
    } else {
        format!("{}…(+{} bytes)", hex::encode(&b[..max]), b.len() - max)
    }
}

pub fn sha256_hex(b: &[u8]) -> String {
    use sha2::Digest;
    hex::encode(sha2::Sha256::digest(b))
}

/// A logger that formats every record (so that log arguments are evaluated, as they are in an
/// application that enables debug logging) and discards the text.
struct EvalLogger;
impl log::Log for EvalLogger {
    fn enabled(&self, _: &log::Metadata) -> bool {
        true
    }
    fn log(&self, record: &log::Record) {
        use std::fmt::Write;
        let mut sink = Discard;
        let _ = write!(sink, "{}", record.args());
    }
    fn flush(&self) {}
}
struct Discard;
impl std::fmt::Write for Discard {
    fn write_str(&mut self, _: &str) -> std::fmt::Result {
        Ok(())
    }
}
static LOGGER: EvalLogger = EvalLogger;
pub fn install_logger() {
    if log::set_logger(&LOGGER).is_ok() {
        log::set_max_level(log::LevelFilter::Trace);
    }
}

use std::sync::atomic::{AtomicI32, Ordering};
static REAL_STDOUT: AtomicI32 = AtomicI32::new(1);

/// The library prints to stdout on one error path; keep the verdict stream clean by pointing fd 1
/// at /dev/null while checks run and writing verdict lines to the saved descriptor.
pub fn protect_stdout() {
    unsafe {
        let saved = libc::dup(1);
        let null = libc::open(b"/dev/null\0".as_ptr() as *const libc::c_char, libc::O_WRONLY);
        if saved >= 0 && null >= 0 {
            libc::dup2(null, 1);
            libc::close(null);
            REAL_STDOUT.store(saved, Ordering::Relaxed);
        }
    }
}

pub fn out_line(s: &str) {
    let fd = REAL_STDOUT.load(Ordering::Relaxed);
    let mut b = s.as_bytes().to_vec();
    b.push(b'\n');
    let mut off = 0;
    while off < b.len() {
        let n = unsafe { libc::write(fd, b[off..].as_ptr() as *const libc::c_void, b.len() - off) };
        if n <= 0 {
            break;
        }
        off += n as usize;
    }
}


/// A sink that implements nothing but `write` / `flush` (so `write_vectored`, `write_all` ... are
/// the trait's defaults) and accepts at most `max` bytes per call.
pub struct PlainWriter {
    pub out: Vec<u8>,
    pub max: usize,
}

impl std::io::Write for PlainWriter {
    fn write(&mut self, buf: &[u8]) -> std::io::Result<usize> {
        let n = buf.len().min(self.max.max(1));
        self.out.extend_from_slice(&buf[..n]);
        Ok(n)
    }
    fn flush(&mut self) -> std::io::Result<()> {
        Ok(())
    }
}


/// `Package::open("/proc/self/fd/<read end of a pipe>")` with `bytes` fed by another thread; None
/// when the platform has no /proc/self/fd or no pipe can be made.
pub fn open_through_pipe(bytes: &[u8]) -> Option<Result<rpm::Package, rpm::Error>> {
    use std::io::Write;
    use std::os::fd::FromRawFd;
    if !std::path::Path::new("/proc/self/fd").exists() {
        return None;
    }
    let mut fds = [0i32; 2];
    if unsafe { libc::pipe(fds.as_mut_ptr()) } != 0 {
        return None;
    }
    let rd = unsafe { std::fs::File::from_raw_fd(fds[0]) };
    let mut wr = unsafe { std::fs::File::from_raw_fd(fds[1]) };
    let data = bytes.to_vec();
    let feeder = std::thread::spawn(move || {
        let _ = wr.write_all(&data);
    });
    let r = rpm::Package::open(format!("/proc/self/fd/{}", fds[0]));
    drop(rd);
    let _ = feeder.join();
    Some(r)
}


/// `Package::write_file` into a fresh directory that already holds stale neighbours of the destination
/// (names a temporary-file scheme might use, each larger than the package), read back.
pub fn bytes_of_write_file(pkg: &rpm::Package, expected_len: usize) -> Result<Vec<u8>, rpm::Error> {
    use std::sync::atomic::{AtomicU64, Ordering};
    static N: AtomicU64 = AtomicU64::new(0);
    let root = std::env::var("VERIF_WORK_DIR").map(std::path::PathBuf::from).unwrap_or_else(|_| std::env::temp_dir());
    let dir = root.join(format!("wf-{}-{}", std::process::id(), N.fetch_add(1, Ordering::Relaxed)));
    std::fs::create_dir_all(&dir)?;
    let path = dir.join("pkg.rpm");
    for decoy in ["pkg.rpm.part", "pkg.rpm.tmp", ".pkg.rpm.tmp", "pkg.rpm~", "pkg.part", "pkg.rpm.new", ".pkg.rpm.part"] {
        let _ = std::fs::write(dir.join(decoy), vec![0xeeu8; expected_len + 4096]);
    }
    let r = pkg.write_file(&path).and_then(|_| Ok(std::fs::read(&path)?));
    let _ = std::fs::remove_dir_all(&dir);
    r
}


/// A sink that takes `left` bytes and then fails every call.
pub struct FailAfter {
    pub left: usize,
}

impl std::io::Write for FailAfter {
    fn write(&mut self, buf: &[u8]) -> std::io::Result<usize> {
        if self.left == 0 {
            return Err(std::io::Error::other("device full"));
        }
        let n = buf.len().min(self.left);
        self.left -= n;
        Ok(n)
    }
    fn flush(&mut self) -> std::io::Result<()> {
        Ok(())
    }
}
