//! Parallel case execution (std threads) and in-process panic capture.

use std::cell::RefCell;
use std::panic::{catch_unwind, AssertUnwindSafe};
use std::sync::atomic::{AtomicU64, Ordering};
use std::sync::{Mutex, Once};

/// panics that escaped a check's own guards (e.g. in a worker thread of `par_for` or in sample
/// rendering); the orchestrator turns them into violations (library code) or inconclusive (harness)
pub static ESCAPED: Mutex<Vec<PanicInfo>> = Mutex::new(Vec::new());

/// Run `f(index)` for every index in 0..n on `threads` threads; work is handed out in chunks.
pub fn par_for(threads: usize, n: u64, chunk: u64, f: impl Fn(u64) + Sync) {
    let next = AtomicU64::new(0);
    let chunk = chunk.max(1);
    std::thread::scope(|s| {
        for _ in 0..threads.max(1) {
            s.spawn(|| loop {
                let start = next.fetch_add(chunk, Ordering::Relaxed);
                if start >= n {
                    break;
                }
                let end = (start + chunk).min(n);
                for i in start..end {
                    if let Err(p) = guard(|| f(i)) {
                        let mut e = ESCAPED.lock().unwrap_or_else(|e| e.into_inner());
                        if e.len() < 64 {
                            e.push(p);
                        }
                    }
                }
            });
        }
    });
}

/// Run `f(item)` for every item of a slice in parallel.
pub fn par_each<T: Sync>(threads: usize, items: &[T], f: impl Fn(usize, &T) + Sync) {
    par_for(threads, items.len() as u64, 1, |i| f(i as usize, &items[i as usize]));
}

#[derive(Clone, Debug)]
pub struct PanicInfo {
    pub message: String,
    pub file: String,
    pub line: u32,
    /// first frame inside the `rpm` crate (function name), when the backtrace resolves it
    pub rpm_frame: String,
}

impl PanicInfo {
    /// class key component: source file (basename) + message with digits/quoted data normalised
    pub fn site(&self) -> String {
        site_of(&self.file, &self.rpm_frame, &self.message)
    }
}

/// class-key component for a panic: source file (basename) + function + normalised message
pub fn site_of(file: &str, frame: &str, message: &str) -> String {
    let base = file.rsplit('/').next().unwrap_or(file);
    format!("{}:{}:{}", base, if frame.is_empty() { "?" } else { frame }, normalize_msg(message))
}

pub fn normalize_msg(m: &str) -> String {
    let mut out = String::new();
    let mut last_n = false;
    for c in m.chars().take(120) {
        if c.is_ascii_digit() {
            if !last_n {
                out.push('N');
            }
            last_n = true;
        } else {
            last_n = false;
            out.push(if c.is_whitespace() { ' ' } else { c });
        }
    }
    // cut data echoed by the message after a double quote (keeps keys stable across inputs);
    // backticks only wrap code in std's own messages
    if let Some(p) = out.find('"') {
        out.truncate(p);
    }
    out.replace('`', "").trim().to_string()
}

/// Function name of the innermost frame whose source file lies in the repository under test
/// (frames are printed as "N: name" followed by "at path:line:col").
pub fn first_repo_frame(bt: &str) -> String {
    let repo = std::env::var("VERIF_REPO").unwrap_or_else(|_| "/repo".into());
    let needle = format!("at {}/src/", repo.trim_end_matches('/'));
    let mut prev = "";
    for l in bt.lines() {
        let t = l.trim();
        if t.starts_with(&needle) && !t.contains("verif_hooks") {
            let name = prev.split_once(": ").map(|(_, n)| n).unwrap_or(prev);
            // strip generic arguments: they differ between instantiations of one site
            return name.split('<').next().unwrap_or(name).to_string();
        }
        prev = t;
    }
    String::new()
}

thread_local! {
    static LAST_PANIC: RefCell<Option<PanicInfo>> = const { RefCell::new(None) };
    static QUIET: RefCell<bool> = const { RefCell::new(false) };
}

static HOOK: Once = Once::new();

pub fn install_panic_hook() {
    HOOK.call_once(|| {
        let default = std::panic::take_hook();
        std::panic::set_hook(Box::new(move |info| {
            let quiet = QUIET.with(|q| *q.borrow());
            if !quiet {
                default(info);
                return;
            }
            let message = if let Some(s) = info.payload().downcast_ref::<&str>() {
                s.to_string()
            } else if let Some(s) = info.payload().downcast_ref::<String>() {
                s.clone()
            } else {
                "<non-string panic payload>".to_string()
            };
            let (file, line) = info.location().map(|l| (l.file().to_string(), l.line())).unwrap_or_default();
            let acct = crate::monitor::alloc::pause();
            let bt = if cfg!(miri) { String::new() } else { std::backtrace::Backtrace::force_capture().to_string() };
            if std::env::var_os("VERIF_DEBUG_BT").is_some() {
                eprintln!("{bt}");
            }
            let rpm_frame = first_repo_frame(&bt);
            LAST_PANIC.with(|p| *p.borrow_mut() = Some(PanicInfo { message, file, line, rpm_frame }));
            crate::monitor::alloc::resume(acct);
        }));
    });
}

/// Run `f`, converting a panic into `Err(PanicInfo)`.
pub fn guard<T>(f: impl FnOnce() -> T) -> Result<T, PanicInfo> {
    install_panic_hook();
    // nesting-safe: restore the previous state afterwards
    let was_quiet = QUIET.with(|q| std::mem::replace(&mut *q.borrow_mut(), true));
    LAST_PANIC.with(|p| *p.borrow_mut() = None);
    let r = catch_unwind(AssertUnwindSafe(f));
    QUIET.with(|q| *q.borrow_mut() = was_quiet);
    match r {
        Ok(v) => Ok(v),
        Err(_) => Err(LAST_PANIC.with(|p| p.borrow_mut().take()).unwrap_or(PanicInfo {
            message: "<panic without hook record>".into(),
            file: String::new(),
            line: 0,
            rpm_frame: String::new(),
        })),
    }
}
