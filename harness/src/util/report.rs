//! Run context, measured coverage, violations, known findings and the evidence file.

use serde::{Deserialize, Serialize};
use serde_json::{json, Value};
use std::collections::{BTreeMap, BTreeSet, HashSet};
use std::path::PathBuf;
use std::sync::atomic::{AtomicU64, Ordering};
use std::sync::Mutex;
use std::time::Instant;

#[derive(Clone, Copy, Debug, PartialEq, Eq)]
pub enum Tier {
    Quick,
    Thorough,
}

impl Tier {
    pub fn name(self) -> &'static str {
        match self {
            Tier::Quick => "quick",
            Tier::Thorough => "thorough",
        }
    }
    /// pick a bound by tier
    pub fn pick<T>(self, quick: T, thorough: T) -> T {
        match self {
            Tier::Quick => quick,
            Tier::Thorough => thorough,
        }
    }
}

pub struct Ctx {
    pub id: String,
    pub tier: Tier,
    pub seed: u64,
    /// "release" or "verifdbg": the profile this process was built with
    pub profile: &'static str,
    pub verif_dir: PathBuf,
    pub repo_dir: PathBuf,
    pub start: Instant,
    pub threads: usize,
}

impl Ctx {
    pub fn work_dir(&self, sub: &str) -> PathBuf {
        let root = std::env::var("VERIF_WORK_DIR").map(PathBuf::from).unwrap_or_else(|_| self.verif_dir.join("work"));
        let d = root.join(format!("{}-{}-{}-{}", self.id, self.profile, std::process::id(), sub));
        let _ = std::fs::remove_dir_all(&d);
        std::fs::create_dir_all(&d).expect("create work dir");
        d
    }
    pub fn asset(&self, rel: &str) -> PathBuf {
        self.repo_dir.join(rel)
    }
    pub fn is_dbg(&self) -> bool {
        self.profile == "verifdbg"
    }
}

pub fn profile_name() -> &'static str {
    if cfg!(debug_assertions) {
        "verifdbg"
    } else {
        "release"
    }
}

#[derive(Clone, Debug, Serialize, Deserialize)]
pub struct Violation {
    /// stable class key: names the failing call site / input class / history, never a line number
    pub key: String,
    pub what: String,
    pub witness: Value,
    pub size: u64,
    pub count: u64,
    pub profile: String,
}

#[derive(Default, Serialize, Deserialize)]
pub struct ReportData {
    pub evaluations: u64,
    pub distinct: BTreeSet<u64>,
    pub counters: BTreeMap<String, u64>,
    pub samples: Vec<Value>,
    pub violations: BTreeMap<String, Violation>,
    pub inconclusive: Vec<String>,
    pub notes: Vec<String>,
    pub exhaustive: Option<bool>,
}

pub struct Report {
    pub evaluations: AtomicU64,
    distinct: Mutex<HashSet<u64>>,
    counters: Mutex<BTreeMap<String, u64>>,
    samples: Mutex<Vec<Value>>,
    violations: Mutex<BTreeMap<String, Violation>>,
    inconclusive: Mutex<Vec<String>>,
    notes: Mutex<Vec<String>>,
    exhaustive: Mutex<Option<bool>>,
    profile: &'static str,
    max_samples: usize,
}

impl Report {
    pub fn new() -> Report {
        Report {
            evaluations: AtomicU64::new(0),
            distinct: Mutex::new(HashSet::new()),
            counters: Mutex::new(BTreeMap::new()),
            samples: Mutex::new(Vec::new()),
            violations: Mutex::new(BTreeMap::new()),
            inconclusive: Mutex::new(Vec::new()),
            notes: Mutex::new(Vec::new()),
            exhaustive: Mutex::new(None),
            profile: profile_name(),
            max_samples: 12,
        }
    }
    pub fn eval(&self, n: u64) {
        self.evaluations.fetch_add(n, Ordering::Relaxed);
    }
    /// register a distinct non-trivial case by content hash
    pub fn nontrivial(&self, h: u64) {
        self.distinct.lock().unwrap().insert(h);
    }
    pub fn nontrivial_many(&self, hs: impl IntoIterator<Item = u64>) {
        let mut d = self.distinct.lock().unwrap();
        for h in hs {
            d.insert(h);
        }
    }
    pub fn count(&self, name: &str, n: u64) {
        *self.counters.lock().unwrap().entry(name.to_string()).or_insert(0) += n;
    }
    pub fn counts(&self, local: &BTreeMap<String, u64>) {
        let mut c = self.counters.lock().unwrap();
        for (k, v) in local {
            *c.entry(k.clone()).or_insert(0) += *v;
        }
    }
    pub fn get_count(&self, name: &str) -> u64 {
        self.counters.lock().unwrap().get(name).copied().unwrap_or(0)
    }
    pub fn sample(&self, v: Value) {
        let mut s = self.samples.lock().unwrap();
        if s.len() < self.max_samples {
            s.push(v);
        }
    }
    pub fn sample_count(&self) -> usize {
        self.samples.lock().unwrap().len()
    }
    pub fn note(&self, s: impl Into<String>) {
        let s = s.into();
        let mut n = self.notes.lock().unwrap();
        if n.len() < 40 && !n.contains(&s) {
            n.push(s);
        }
    }
    pub fn inconclusive(&self, s: impl Into<String>) {
        self.inconclusive.lock().unwrap().push(s.into());
    }
    pub fn set_exhaustive(&self, b: bool) {
        let mut e = self.exhaustive.lock().unwrap();
        *e = Some(e.unwrap_or(true) && b);
    }
    /// record a violation; keeps the smallest witness per class key
    pub fn violation(&self, key: impl Into<String>, what: impl Into<String>, witness: Value, size: u64) {
        let key = key.into();
        let mut v = self.violations.lock().unwrap();
        match v.get_mut(&key) {
            Some(old) => {
                old.count += 1;
                if size < old.size {
                    old.size = size;
                    old.witness = witness;
                    old.what = what.into();
                }
            }
            None => {
                v.insert(
                    key.clone(),
                    Violation { key, what: what.into(), witness, size, count: 1, profile: self.profile.to_string() },
                );
            }
        }
    }
    pub fn violation_count(&self) -> usize {
        self.violations.lock().unwrap().len()
    }

    pub fn into_data(self) -> ReportData {
        ReportData {
            evaluations: self.evaluations.load(Ordering::Relaxed),
            distinct: self.distinct.into_inner().unwrap().into_iter().collect(),
            counters: self.counters.into_inner().unwrap(),
            samples: self.samples.into_inner().unwrap(),
            violations: self.violations.into_inner().unwrap(),
            inconclusive: self.inconclusive.into_inner().unwrap(),
            notes: self.notes.into_inner().unwrap(),
            exhaustive: self.exhaustive.into_inner().unwrap(),
        }
    }

    /// merge the report of a sub-run (other profile / other process)
    pub fn merge(&self, prefix: &str, other: ReportData) {
        self.eval(other.evaluations);
        self.nontrivial_many(other.distinct);
        {
            let mut c = self.counters.lock().unwrap();
            for (k, v) in other.counters {
                *c.entry(format!("{prefix}{k}")).or_insert(0) += v;
            }
        }
        for s in other.samples.into_iter().take(4) {
            self.sample(s);
        }
        {
            let mut v = self.violations.lock().unwrap();
            for (k, viol) in other.violations {
                match v.get_mut(&k) {
                    Some(old) => {
                        old.count += viol.count;
                        if viol.size < old.size {
                            old.size = viol.size;
                            old.witness = viol.witness;
                            old.what = viol.what;
                            old.profile = viol.profile;
                        }
                    }
                    None => {
                        v.insert(k, viol);
                    }
                }
            }
        }
        for i in other.inconclusive {
            self.inconclusive(format!("{prefix}{i}"));
        }
        for n in other.notes {
            self.note(format!("{prefix}{n}"));
        }
        if let Some(b) = other.exhaustive {
            self.set_exhaustive(b);
        }
    }
}

#[derive(Deserialize, Debug, Clone)]
pub struct KnownFinding {
    pub property: String,
    pub key: String,
    pub what: String,
    /// "known" or "fixed"
    pub status: String,
    #[serde(default)]
    pub commit: Option<String>,
}

#[derive(Deserialize, Debug, Default)]
pub struct KnownFindings {
    pub findings: Vec<KnownFinding>,
}

pub fn load_known(ctx: &Ctx) -> KnownFindings {
    let p = ctx.verif_dir.join("known_findings.json");
    match std::fs::read(&p) {
        Ok(b) => serde_json::from_slice(&b).unwrap_or_else(|e| {
            eprintln!("warning: cannot parse {}: {e}", p.display());
            KnownFindings::default()
        }),
        Err(_) => KnownFindings::default(),
    }
}

pub struct Meta {
    pub level: &'static str,
    pub rule: String,
    pub assumptions: Vec<String>,
    /// minimum number of distinct non-trivial cases below which the run is inconclusive
    pub floor_distinct: u64,
}

/// Finish a run: match violations against the known-findings file, write witnesses and the
/// evidence file, print the verdict lines, return the exit code (0 held / 1 violated / 2 inconclusive).
pub fn finish(ctx: &Ctx, rep: Report, meta: Meta) -> i32 {
    let known = load_known(ctx);
    let data = rep.into_data();
    let evidence_dir = std::env::var("VERIF_EVIDENCE_DIR").map(PathBuf::from).unwrap_or_else(|_| ctx.verif_dir.join("evidence"));
    let replay_dir = evidence_dir.join("replay");
    let _ = std::fs::create_dir_all(&replay_dir);

    let mut new_violations = Vec::new();
    let mut known_matched = Vec::new();
    for (key, v) in &data.violations {
        let k = known
            .findings
            .iter()
            .find(|f| f.property == ctx.id && f.key == *key && f.status == "known");
        if let Some(k) = k {
            crate::util::out_line(&format!("KNOWN-FINDING: property={} {} [{}]", ctx.id, k.what, key));
            known_matched.push(json!({"key": key, "what": k.what, "observed": v.count}));
        } else {
            let fname = format!("{}-{:016x}.json", ctx.id, crate::util::rng::hash_str(key));
            let path = replay_dir.join(fname);
            let w = json!({
                "property": ctx.id,
                "key": key,
                "what": v.what,
                "profile": v.profile,
                "seed": ctx.seed,
                "tier": ctx.tier.name(),
                "occurrences": v.count,
                "witness": v.witness,
            });
            let _ = std::fs::write(&path, serde_json::to_vec_pretty(&w).unwrap());
            crate::util::out_line(&format!("VIOLATION property={} replay={}", ctx.id, path.display()));
            eprintln!("  class {}: {} ({} occurrence(s))", key, v.what, v.count);
            new_violations.push(json!({"key": key, "what": v.what, "replay": path.display().to_string(), "occurrences": v.count}));
        }
    }
    let known_not_observed: Vec<Value> = known
        .findings
        .iter()
        .filter(|f| f.property == ctx.id && f.status == "known" && !data.violations.contains_key(&f.key))
        .map(|f| json!(f.key))
        .collect();

    let mut inconclusive = data.inconclusive.clone();
    let distinct = data.distinct.len() as u64;
    if distinct < meta.floor_distinct.max(2) {
        inconclusive.push(format!(
            "only {} distinct non-trivial cases observed (floor {})",
            distinct,
            meta.floor_distinct.max(2)
        ));
    }
    if data.evaluations == 0 {
        inconclusive.push("no executions observed".to_string());
    }

    let wall = ctx.start.elapsed().as_secs_f64();
    let mut samples = data.samples.clone();
    if samples.is_empty() {
        samples.push(json!("(no sample recorded)"));
    }
    let mut coverage = json!({
        "evaluations": data.evaluations.max(1),
        "distinct_nontrivial": distinct,
        "rule": meta.rule,
        "samples": samples,
        "counters": data.counters,
        "profiles": if ctx.is_dbg() { json!(["verifdbg"]) } else { json!(["release (+ verifdbg where merged, see counters prefixed dbg.)"]) },
        "known_findings_matched": known_matched,
        "known_not_observed": known_not_observed,
        "new_violations": new_violations,
        "inconclusive": inconclusive,
        "notes": data.notes,
        "threads": ctx.threads,
    });
    if let Some(e) = data.exhaustive {
        coverage["exhaustive"] = json!(e);
    }
    let ev = json!({
        "property_id": ctx.id,
        "tier": ctx.tier.name(),
        "seed": ctx.seed,
        "level": meta.level,
        "coverage": coverage,
        "assumptions": meta.assumptions,
        "wall_s": (wall * 1000.0).round() / 1000.0,
        "violations": new_violations.len(),
        "verdict": if !new_violations.is_empty() { "violated" } else if !inconclusive.is_empty() { "inconclusive" } else { "held on what was observed" },
    });
    let evp = evidence_dir.join(format!("{}.json", ctx.id));
    let tmp = evp.with_extension("json.tmp");
    std::fs::write(&tmp, serde_json::to_vec_pretty(&ev).unwrap()).expect("write evidence");
    std::fs::rename(&tmp, &evp).expect("rename evidence");

    eprintln!(
        "[{}] {} tier, seed {}: {} evaluations, {} distinct non-trivial, {} new violation class(es), {} known, {:.1}s",
        ctx.id,
        ctx.tier.name(),
        ctx.seed,
        data.evaluations,
        distinct,
        new_violations.len(),
        known_matched.len(),
        wall
    );
    if !new_violations.is_empty() {
        1
    } else if !inconclusive.is_empty() {
        for i in &inconclusive {
            eprintln!("INCONCLUSIVE property={} {}", ctx.id, i);
        }
        2
    } else {
        0
    }
}
