//! Small deterministic PRNG (xoshiro256** seeded through SplitMix64). Every generated case is a
//! function of (VERIF_SEED, property id, case index) only.

#[derive(Clone, Debug)]
pub struct Rng {
    s: [u64; 4],
}

fn splitmix(x: &mut u64) -> u64 {
    *x = x.wrapping_add(0x9E37_79B9_7F4A_7C15);
    let mut z = *x;
    z = (z ^ (z >> 30)).wrapping_mul(0xBF58_476D_1CE4_E5B9);
    z = (z ^ (z >> 27)).wrapping_mul(0x94D0_49BB_1331_11EB);
    z ^ (z >> 31)
}

pub fn hash_str(s: &str) -> u64 {
    // FNV-1a
    let mut h: u64 = 0xcbf29ce484222325;
    for b in s.as_bytes() {
        h ^= *b as u64;
        h = h.wrapping_mul(0x100000001b3);
    }
    h
}

pub fn hash_bytes(b: &[u8]) -> u64 {
    let mut h: u64 = 0xcbf29ce484222325;
    for x in b {
        h ^= *x as u64;
        h = h.wrapping_mul(0x100000001b3);
    }
    // final avalanche
    let mut x = h;
    splitmix(&mut x)
}

impl Rng {
    pub fn new(seed: u64) -> Rng {
        let mut x = seed;
        Rng { s: [splitmix(&mut x), splitmix(&mut x), splitmix(&mut x), splitmix(&mut x)] }
    }
    /// independent stream for (seed, domain, index)
    pub fn for_case(seed: u64, domain: &str, index: u64) -> Rng {
        let mut x = seed ^ hash_str(domain).rotate_left(17) ^ index.wrapping_mul(0xD6E8_FEB8_6659_FD93);
        let a = splitmix(&mut x);
        Rng::new(a ^ index)
    }
    pub fn next(&mut self) -> u64 {
        let r = self.s[1].wrapping_mul(5).rotate_left(7).wrapping_mul(9);
        let t = self.s[1] << 17;
        self.s[2] ^= self.s[0];
        self.s[3] ^= self.s[1];
        self.s[1] ^= self.s[2];
        self.s[0] ^= self.s[3];
        self.s[2] ^= t;
        self.s[3] = self.s[3].rotate_left(45);
        r
    }
    pub fn below(&mut self, n: u64) -> u64 {
        if n == 0 { 0 } else { self.next() % n }
    }
    pub fn range(&mut self, lo: u64, hi_incl: u64) -> u64 {
        lo + self.below(hi_incl - lo + 1)
    }
    pub fn usize(&mut self, n: usize) -> usize {
        self.below(n as u64) as usize
    }
    pub fn chance(&mut self, num: u64, den: u64) -> bool {
        self.below(den) < num
    }
    pub fn bool(&mut self) -> bool {
        self.next() & 1 == 1
    }
    pub fn pick<'a, T>(&mut self, xs: &'a [T]) -> &'a T {
        &xs[self.usize(xs.len())]
    }
    pub fn bytes(&mut self, n: usize) -> Vec<u8> {
        let mut v = Vec::with_capacity(n);
        while v.len() < n {
            let x = self.next().to_le_bytes();
            let k = (n - v.len()).min(8);
            v.extend_from_slice(&x[..k]);
        }
        v
    }
    pub fn shuffle<T>(&mut self, xs: &mut [T]) {
        for i in (1..xs.len()).rev() {
            let j = self.usize(i + 1);
            xs.swap(i, j);
        }
    }
}
