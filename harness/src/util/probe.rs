//! Runs the `featprobe` binaries (the library built with other cargo feature sets than the main
//! harness) and hands their observation lines to the checks that judge them.

use super::report::{Ctx, Report};

pub const SETS: [&str; 3] = ["set-none", "set-gzip", "set-default"];

pub struct Obs {
    pub set: String,
    /// the fields after "OBS"
    pub fields: Vec<String>,
}

/// All observations of all feature sets; notes (never a verdict) when the probes are not there.
pub fn observations(ctx: &Ctx, rep: &Report) -> Vec<Obs> {
    let mut out = Vec::new();
    if ctx.is_dbg() {
        return out;
    }
    let Ok(dir) = std::env::var("VERIF_PROBE_DIR") else {
        rep.note("feature-set probes not built (VERIF_PROBE_DIR unset): judged under the harness's feature set only");
        return out;
    };
    let scratch = ctx.work_dir("probe");
    for set in SETS {
        let bin = std::path::Path::new(&dir).join(format!("featprobe-{set}"));
        if !bin.exists() {
            rep.inconclusive(format!("feature probe {} is missing", bin.display()));
            continue;
        }
        match std::process::Command::new(&bin).arg(&ctx.repo_dir).arg(&scratch).output() {
            Ok(o) => {
                let text = String::from_utf8_lossy(&o.stdout);
                let mut done = false;
                for l in text.lines() {
                    let mut f = l.split(' ');
                    if f.next() != Some("OBS") {
                        continue;
                    }
                    let fields: Vec<String> = f.map(|s| s.to_string()).collect();
                    if fields.first().map(|s| s.as_str()) == Some("done") {
                        done = true;
                        continue;
                    }
                    out.push(Obs { set: set.to_string(), fields });
                }
                if !done {
                    rep.inconclusive(format!("feature probe {set} did not finish (status {:?})", o.status));
                }
            }
            Err(e) => rep.inconclusive(format!("feature probe {set} could not be run: {e}")),
        }
    }
    let _ = std::fs::remove_dir_all(&scratch);
    rep.count("feature_sets_probed", SETS.len() as u64);
    out
}
