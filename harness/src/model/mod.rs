pub mod caps;
pub mod codec;
pub mod cpio;
pub mod rpmvercmp;
pub mod strict;
