//! Independent strict structural validator, written from rpm's own header-loading rules
//! (hdrblobVerifyLengths / hdrblobVerifyRegion / hdrblobVerifyInfo), the cpio newc format and the
//! rpmlib() feature table. Returns every broken rule as (rule-key, message).

use super::codec::*;
use super::cpio;

#[derive(Clone, Copy, PartialEq, Eq, Debug)]
pub enum Origin {
    /// emitted by the builder: all rules of the statement apply
    Builder,
    /// produced by rpmbuild / foreign tools and only re-signed by the library: payload ordering
    /// rules are relaxed to what rpm itself requires (archive entries must be files of the header)
    Foreign,
}

pub struct Finding {
    pub rule: String,
    pub msg: String,
}

fn f(v: &mut Vec<Finding>, rule: &str, msg: String) {
    v.push(Finding { rule: rule.to_string(), msg });
}

fn type_align(t: u32) -> usize {
    match t {
        3 => 2,
        4 => 4,
        5 => 8,
        _ => 1,
    }
}

fn check_header(v: &mut Vec<Finding>, which: &str, bytes: &[u8], h: &RawHeader, region_tag: u32) {
    let k = |r: &str| format!("{which}.{r}");
    if h.il < 1 || h.il > 0xffff {
        f(v, &k("il-range"), format!("{which}: il={} outside 1..=65535", h.il));
        return;
    }
    if h.dl > 0x0fff_ffff {
        f(v, &k("dl-range"), format!("{which}: dl={} above 256 MiB", h.dl));
        return;
    }
    let store = h.store(bytes);
    let dl = h.dl as usize;
    // region
    let r = &h.entries[0];
    let mut data_limit = dl;
    if r.tag != region_tag {
        f(v, &k("region-missing"), format!("{which}: first entry has tag {} instead of the region tag {}", r.tag, region_tag));
    } else if r.typ != 7 || r.count != 16 {
        f(v, &k("region-type"), format!("{which}: region entry has type {} count {}", r.typ, r.count));
    } else if r.offset < 0 || r.offset as usize + 16 > dl {
        f(v, &k("region-offset"), format!("{which}: region trailer offset {} outside the store (dl={})", r.offset, dl));
    } else {
        let t = &store[r.offset as usize..r.offset as usize + 16];
        let ttag = u32::from_be_bytes([t[0], t[1], t[2], t[3]]);
        let ttyp = u32::from_be_bytes([t[4], t[5], t[6], t[7]]);
        let toff = i32::from_be_bytes([t[8], t[9], t[10], t[11]]);
        let tcnt = u32::from_be_bytes([t[12], t[13], t[14], t[15]]);
        if ttag != region_tag || ttyp != 7 || tcnt != 16 {
            f(v, &k("region-trailer"), format!("{which}: region trailer is (tag {ttag}, type {ttyp}, count {tcnt})"));
        }
        if toff != -((h.il as i32) * 16) {
            f(v, &k("region-trailer-offset"), format!("{which}: region trailer offset {} does not point back over exactly all {} entries ({})", toff, h.il, -((h.il as i32) * 16)));
        }
        if r.offset as usize + 16 != dl {
            f(v, &k("region-trailer-not-last"), format!("{which}: region trailer ends at {} but the store has {} bytes", r.offset as usize + 16, dl));
        }
        data_limit = r.offset as usize;
    }
    // remaining entries
    let mut prev_tag: Option<u32> = None;
    let mut prev_end: usize = 0;
    for e in &h.entries[1..] {
        if e.tag < 100 {
            f(v, &k("tag-below-100"), format!("{which}: tag {} below HEADER_I18NTABLE", e.tag));
        }
        if let Some(p) = prev_tag {
            if e.tag <= p {
                f(v, &k("tags-not-ascending"), format!("{which}: tag {} follows tag {}", e.tag, p));
            }
        }
        prev_tag = Some(e.tag);
        if e.typ < 1 || e.typ > 9 {
            f(v, &k("illegal-type"), format!("{which}: tag {} has type {}", e.tag, e.typ));
            continue;
        }
        if e.count == 0 {
            f(v, &k("zero-count"), format!("{which}: tag {} has count 0", e.tag));
            continue;
        }
        if e.typ == 6 && e.count != 1 {
            f(v, &k("string-count"), format!("{which}: string tag {} has count {}", e.tag, e.count));
        }
        if e.offset < 0 || e.offset as usize > dl {
            f(v, &k("offset-range"), format!("{which}: tag {} offset {} outside the store", e.tag, e.offset));
            continue;
        }
        let off = e.offset as usize;
        if off % type_align(e.typ) != 0 {
            f(v, &k("misaligned"), format!("{which}: tag {} of type {} at offset {} is not {}-aligned", e.tag, e.typ, off, type_align(e.typ)));
        }
        match data_len(store, e) {
            Err(why) => f(v, &k("data-out-of-range"), format!("{which}: tag {}: {why}", e.tag)),
            Ok(len) => {
                if len == 0 {
                    f(v, &k("zero-length"), format!("{which}: tag {} has zero data length", e.tag));
                }
                if off < prev_end {
                    f(v, &k("overlap"), format!("{which}: tag {} at offset {} overlaps the previous entry's data ending at {}", e.tag, off, prev_end));
                }
                if off + len > data_limit {
                    f(v, &k("data-past-region"), format!("{which}: tag {} data ends at {} beyond the region data ({})", e.tag, off + len, data_limit));
                }
                prev_end = prev_end.max(off + len);
            }
        }
    }
}

pub fn validate(bytes: &[u8], origin: Origin) -> Vec<Finding> {
    let mut v = Vec::new();
    // lead
    if bytes.len() < LEAD_LEN || bytes[0..4] != LEAD_MAGIC {
        f(&mut v, "lead.magic", "lead magic missing".into());
        return v;
    }
    if bytes[4] != 3 && bytes[4] != 4 {
        f(&mut v, "lead.major", format!("lead major version {}", bytes[4]));
    }
    if u16::from_be_bytes([bytes[78], bytes[79]]) != 5 {
        f(&mut v, "lead.signature-type", format!("lead signature type {}", u16::from_be_bytes([bytes[78], bytes[79]])));
    }
    if !bytes[10..76].contains(&0) {
        f(&mut v, "lead.name-unterminated", "lead name is not NUL-terminated".into());
    }
    let p = match walk_package(bytes) {
        Ok(p) => p,
        Err(e) => {
            f(&mut v, "container.walk", format!("container does not walk: {e}"));
            return v;
        }
    };
    check_header(&mut v, "sig", bytes, &p.sig, tag::SIG_REGION);
    check_header(&mut v, "hdr", bytes, &p.hdr, tag::HDR_REGION);
    if bytes[p.sig.end..p.sig.end + p.sig_pad].iter().any(|b| *b != 0) {
        f(&mut v, "sig.padding-not-zero", "signature header padding is not zero".into());
    }
    if (p.sig.end + p.sig_pad - LEAD_LEN) % 8 != 0 {
        f(&mut v, "sig.padding-size", "signature header not padded to 8 bytes".into());
    }
    // payload
    let h = &p.hdr;
    let payload = &bytes[p.payload_start..];
    let compressor = h.get_str(bytes, tag::PAYLOADCOMPRESSOR).map(|c| lossy(&c));
    if !cpio::magic_ok(compressor.as_deref(), payload) {
        f(&mut v, "payload.magic", format!("payload does not start with the magic of {:?}", compressor.as_deref().unwrap_or("(uncompressed cpio)")));
    }
    let archive = match cpio::decompress(compressor.as_deref(), payload) {
        Ok(a) => a,
        Err(e) => {
            f(&mut v, "payload.decompress", format!("payload does not decompress with the algorithm the header names: {e}"));
            return v;
        }
    };
    let files = match decode_files(bytes, h) {
        Ok(fl) => fl,
        Err(e) => {
            f(&mut v, "hdr.file-list", format!("file list does not decode: {e}"));
            return v;
        }
    };
    let sizes = files.sizes.clone();
    let (entries, end) = match cpio::decode(&archive, &|i| sizes.get(i as usize).copied()) {
        Ok(x) => x,
        Err(e) => {
            f(&mut v, "cpio.malformed", format!("payload is not a well-formed cpio archive: {e}"));
            return v;
        }
    };
    if archive[end..].iter().any(|b| *b != 0) {
        f(&mut v, "cpio.data-after-trailer", "non-zero data after the cpio trailer".into());
    }
    let is_source = h.find(tag::SOURCEPACKAGE).is_some() || h.find(tag::SOURCERPM).is_none();
    let mut uses_prefix = false;
    let mut uses_stripped = false;
    // map every archive entry to a header file
    let mut mapped: Vec<usize> = Vec::new();
    for e in &entries {
        if &e.magic == b"07070X" {
            uses_stripped = true;
            let i = e.index as usize;
            if i >= files.paths.len() {
                f(&mut v, "cpio.stripped-index", format!("stripped entry refers to file index {i}"));
                continue;
            }
            mapped.push(i);
            continue;
        }
        if &e.magic != b"070701" && origin == Origin::Builder {
            f(&mut v, "cpio.magic", format!("entry magic {:?}", lossy(&e.magic)));
        }
        let name = &e.name;
        let i = if let Some(rest) = name.strip_prefix(b".") {
            uses_prefix = true;
            files.paths.iter().position(|p| p.as_slice() == rest)
        } else if is_source {
            files.paths.iter().position(|p| p.rsplit(|b| *b == b'/').next() == Some(name.as_slice()) || p.as_slice() == name.as_slice())
        } else {
            files.paths.iter().position(|p| p.as_slice() == name.as_slice() || p.strip_prefix(b"/") == Some(name.as_slice()))
        };
        match i {
            None => f(&mut v, "cpio.name-not-in-header", format!("archive entry {:?} is not a file of the header", lossy(name))),
            Some(i) => {
                mapped.push(i);
                let regular_or_link = files.modes.get(i).map(|m| m & 0o170000 != 0o040000).unwrap_or(true);
                if regular_or_link && e.filesize as u64 != files.sizes[i] && e.nlink <= 1 {
                    f(&mut v, "cpio.size-mismatch", format!("{:?}: archive size {} but header size {}", lossy(name), e.filesize, files.sizes[i]));
                }
                if let Some(m) = files.modes.get(i) {
                    if e.mode as u16 != *m || e.mode > 0xffff {
                        f(&mut v, "cpio.mode-mismatch", format!("{:?}: archive mode {:#o} but header mode {:#o}", lossy(name), e.mode, m));
                    }
                }
            }
        }
    }
    if origin == Origin::Builder {
        // entries in header order with matching names: all files, or all files but %ghost ones
        let all: Vec<usize> = (0..files.paths.len()).collect();
        let non_ghost: Vec<usize> = (0..files.paths.len()).filter(|i| files.flags.get(*i).map(|fl| fl & (1 << 6) == 0).unwrap_or(true)).collect();
        if mapped != all && mapped != non_ghost {
            f(&mut v, "cpio.order", format!("archive entries map to header files {mapped:?}, expected header order {all:?}"));
        }
    } else if mapped.windows(2).any(|w| w[0] == w[1]) {
        // (hard links legitimately repeat in foreign archives only with nlink>1; nothing to check)
    }
    // rpmlib() features
    let reqs: Vec<String> = h.get_strs(bytes, tag::REQUIRENAME).unwrap_or_default().iter().map(|s| lossy(s)).collect();
    let has = |name: &str| reqs.iter().any(|r| r == &format!("rpmlib({name})"));
    let mut need = |cond: bool, name: &str| {
        if cond && !has(name) {
            f(&mut v, &format!("rpmlib.{name}"), format!("the package uses {name} but does not require rpmlib({name})"));
        }
    };
    need(h.find(tag::DIRNAMES).is_some(), "CompressedFileNames");
    need(uses_prefix, "PayloadFilesHavePrefix");
    need(files.digest_algo.map(|a| a != 1).unwrap_or(false) && !files.paths.is_empty(), "FileDigests");
    need(compressor.as_deref() == Some("zstd"), "PayloadIsZstd");
    need(compressor.as_deref() == Some("xz"), "PayloadIsXz");
    need(compressor.as_deref() == Some("bzip2"), "PayloadIsBzip2");
    need(h.find(tag::FILECAPS).is_some(), "FileCaps");
    need(uses_stripped || h.find(tag::LONGFILESIZES).is_some(), "LargeFiles");
    v
}
