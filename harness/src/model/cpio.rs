//! Independent newc / "stripped" (rpm large-file) cpio encoder and decoder.

#[derive(Clone, Debug, PartialEq, Eq)]
pub struct CpioEntry {
    /// "070701", "070702" or "07070X"
    pub magic: [u8; 6],
    pub name: Vec<u8>,
    pub ino: u32,
    pub mode: u32,
    pub nlink: u32,
    /// c_mtime (0 for stripped entries, which carry none)
    pub mtime: u32,
    pub filesize: u32,
    /// for stripped entries: the index into the header's file list
    pub index: u32,
    pub data: Vec<u8>,
    /// byte offset of this entry in the archive
    pub at: usize,
}

pub const TRAILER: &[u8] = b"TRAILER!!!";

fn pad4(v: &mut Vec<u8>) {
    while v.len() % 4 != 0 {
        v.push(0);
    }
}

pub fn enc_newc_header(magic: &[u8; 6], fields: [u32; 13], name_with_nul: &[u8]) -> Vec<u8> {
    let mut v = Vec::new();
    v.extend_from_slice(magic);
    for f in fields {
        v.extend_from_slice(format!("{:08x}", f).as_bytes());
    }
    v.extend_from_slice(name_with_nul);
    v
}

/// A well-formed newc entry (header + name + pad + data + pad)
pub fn enc_newc(name: &[u8], mode: u32, ino: u32, data: &[u8]) -> Vec<u8> {
    let mut nm = name.to_vec();
    nm.push(0);
    // ino mode uid gid nlink mtime filesize devmaj devmin rdevmaj rdevmin namesize check
    let fields = [ino, mode, 0, 0, 1, 0, data.len() as u32, 0, 0, 0, 0, nm.len() as u32, 0];
    let mut v = enc_newc_header(b"070701", fields, &nm);
    pad4(&mut v);
    v.extend_from_slice(data);
    pad4(&mut v);
    v
}

pub fn enc_trailer() -> Vec<u8> {
    enc_newc(TRAILER, 0, 0, &[])
}

/// A stripped entry as rpm writes it: "07070X" + 8 hex digits index, padded to 4, data, padded to 4
pub fn enc_stripped(index: u32, data: &[u8]) -> Vec<u8> {
    let mut v = Vec::new();
    v.extend_from_slice(b"07070X");
    v.extend_from_slice(format!("{:08x}", index).as_bytes());
    pad4(&mut v);
    v.extend_from_slice(data);
    pad4(&mut v);
    v
}

fn hex8(b: &[u8]) -> Result<u32, String> {
    let s = std::str::from_utf8(b).map_err(|_| "non-utf8 hex field".to_string())?;
    if !s.bytes().all(|c| c.is_ascii_hexdigit()) {
        return Err(format!("non-hex field {s:?}"));
    }
    u32::from_str_radix(s, 16).map_err(|e| e.to_string())
}

/// Decode a whole archive. `sizes` gives, for stripped entries, the file size by header index.
/// Returns the entries before the trailer and the offset just after the trailer (incl. padding).
pub fn decode(archive: &[u8], sizes: &dyn Fn(u32) -> Option<u64>) -> Result<(Vec<CpioEntry>, usize), String> {
    let mut p = 0usize;
    let mut out = Vec::new();
    loop {
        let at = p;
        let magic = archive.get(p..p + 6).ok_or(format!("truncated magic at {p}"))?;
        let mut m = [0u8; 6];
        m.copy_from_slice(magic);
        if &m == b"070701" || &m == b"070702" {
            let h = archive.get(p + 6..p + 110).ok_or(format!("truncated header at {p}"))?;
            let f = |i: usize| hex8(&h[i * 8..i * 8 + 8]);
            let ino = f(0)?;
            let mode = f(1)?;
            let nlink = f(4)?;
            let mtime = f(5)?;
            let filesize = f(6)?;
            let namesize = f(11)? as usize;
            if namesize == 0 {
                return Err(format!("zero name size at {p}"));
            }
            let nm = archive.get(p + 110..p + 110 + namesize).ok_or(format!("truncated name at {p}"))?;
            if *nm.last().unwrap() != 0 {
                return Err(format!("name not terminated at {p}"));
            }
            let name = nm[..namesize - 1].to_vec();
            let mut q = p + 110 + namesize;
            q = (q + 3) & !3;
            let data = archive.get(q..q + filesize as usize).ok_or(format!("truncated data at {p}"))?.to_vec();
            q += filesize as usize;
            q = (q + 3) & !3;
            if q > archive.len() {
                return Err(format!("truncated data padding at {p}"));
            }
            if name == TRAILER {
                return Ok((out, q));
            }
            out.push(CpioEntry { magic: m, name, ino, mode, nlink, mtime, filesize, index: u32::MAX, data, at });
            p = q;
        } else if &m == b"07070X" {
            let idx = hex8(archive.get(p + 6..p + 14).ok_or("truncated stripped header")?)?;
            let mut q = p + 14;
            q = (q + 3) & !3;
            let size = sizes(idx).ok_or(format!("stripped index {idx} not in header"))? as usize;
            let data = archive.get(q..q + size).ok_or(format!("truncated stripped data at {p}"))?.to_vec();
            q += size;
            q = (q + 3) & !3;
            if q > archive.len() {
                return Err(format!("truncated stripped data padding at {p}"));
            }
            out.push(CpioEntry { magic: m, name: Vec::new(), ino: 0, mode: 0, nlink: 0, mtime: 0, filesize: size as u32, index: idx, data, at });
            p = q;
        } else {
            return Err(format!("bad cpio magic {:?} at {p}", String::from_utf8_lossy(&m)));
        }
    }
}

// ---------------------------------------------------------------------------------------------
// independent (de)compression, calling the codec crates directly

pub fn decompress(compressor: Option<&str>, payload: &[u8]) -> Result<Vec<u8>, String> {
    use std::io::Read;
    let mut out = Vec::new();
    match compressor {
        None | Some("none") => out.extend_from_slice(payload),
        Some("gzip") => {
            flate2::read::MultiGzDecoder::new(payload).read_to_end(&mut out).map_err(|e| format!("gzip: {e}"))?;
        }
        Some("zstd") => {
            zstd::stream::read::Decoder::new(payload)
                .map_err(|e| format!("zstd: {e}"))?
                .read_to_end(&mut out)
                .map_err(|e| format!("zstd: {e}"))?;
        }
        Some("xz") | Some("lzma") => {
            liblzma::read::XzDecoder::new(payload).read_to_end(&mut out).map_err(|e| format!("xz: {e}"))?;
        }
        Some("bzip2") => {
            bzip2::read::BzDecoder::new(payload).read_to_end(&mut out).map_err(|e| format!("bzip2: {e}"))?;
        }
        Some(o) => return Err(format!("unknown compressor {o}")),
    }
    Ok(out)
}

pub fn compress(compressor: &str, data: &[u8]) -> Vec<u8> {
    use std::io::Write;
    match compressor {
        "none" => data.to_vec(),
        "gzip" => {
            let mut e = flate2::write::GzEncoder::new(Vec::new(), flate2::Compression::new(6));
            e.write_all(data).unwrap();
            e.finish().unwrap()
        }
        "zstd" => zstd::stream::encode_all(data, 3).unwrap(),
        "xz" => {
            let mut e = liblzma::write::XzEncoder::new(Vec::new(), 3);
            e.write_all(data).unwrap();
            e.finish().unwrap()
        }
        "bzip2" => {
            let mut e = bzip2::write::BzEncoder::new(Vec::new(), bzip2::Compression::new(6));
            e.write_all(data).unwrap();
            e.finish().unwrap()
        }
        o => panic!("unknown compressor {o}"),
    }
}

/// The magic bytes a compressed stream of the given format starts with
pub fn magic_ok(compressor: Option<&str>, payload: &[u8]) -> bool {
    match compressor {
        None | Some("none") => payload.starts_with(b"07070"),
        Some("gzip") => payload.starts_with(&[0x1f, 0x8b]),
        Some("zstd") => payload.starts_with(&[0x28, 0xb5, 0x2f, 0xfd]),
        Some("xz") => payload.starts_with(&[0xfd, b'7', b'z', b'X', b'Z', 0]),
        Some("bzip2") => payload.starts_with(b"BZh"),
        _ => false,
    }
}
