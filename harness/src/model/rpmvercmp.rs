//! Byte-level port of rpm's C `rpmvercmp()` (lib/rpmvercmp.c): pointer walk over NUL-free byte
//! strings with ASCII-only character classes. Structurally unlike the library's slice/iterator code.

use std::cmp::Ordering;

#[inline]
fn at(s: &[u8], i: usize) -> u8 {
    // C strings: reading the terminator yields 0
    if i < s.len() { s[i] } else { 0 }
}
#[inline]
fn is_alnum(c: u8) -> bool {
    c.is_ascii_alphanumeric()
}

pub fn rpmvercmp(a: &[u8], b: &[u8]) -> Ordering {
    if a == b {
        return Ordering::Equal;
    }
    let (mut one, mut two) = (0usize, 0usize);
    while at(a, one) != 0 || at(b, two) != 0 {
        while at(a, one) != 0 && !is_alnum(at(a, one)) && at(a, one) != b'~' && at(a, one) != b'^' {
            one += 1;
        }
        while at(b, two) != 0 && !is_alnum(at(b, two)) && at(b, two) != b'~' && at(b, two) != b'^' {
            two += 1;
        }
        let (c1, c2) = (at(a, one), at(b, two));
        if c1 == b'~' || c2 == b'~' {
            if c1 != b'~' {
                return Ordering::Greater;
            }
            if c2 != b'~' {
                return Ordering::Less;
            }
            one += 1;
            two += 1;
            continue;
        }
        if c1 == b'^' || c2 == b'^' {
            if c1 == 0 {
                return Ordering::Less;
            }
            if c2 == 0 {
                return Ordering::Greater;
            }
            if c1 != b'^' {
                return Ordering::Greater;
            }
            if c2 != b'^' {
                return Ordering::Less;
            }
            one += 1;
            two += 1;
            continue;
        }
        if !(c1 != 0 && c2 != 0) {
            break;
        }
        let (mut e1, mut e2) = (one, two);
        let isnum;
        if at(a, e1).is_ascii_digit() {
            while at(a, e1).is_ascii_digit() {
                e1 += 1;
            }
            while at(b, e2).is_ascii_digit() {
                e2 += 1;
            }
            isnum = true;
        } else {
            while at(a, e1).is_ascii_alphabetic() {
                e1 += 1;
            }
            while at(b, e2).is_ascii_alphabetic() {
                e2 += 1;
            }
            isnum = false;
        }
        if one == e1 {
            return Ordering::Less; // "cannot happen"
        }
        if two == e2 {
            return if isnum { Ordering::Greater } else { Ordering::Less };
        }
        let (mut s1, mut s2) = (one, two);
        if isnum {
            while s1 < e1 && a[s1] == b'0' {
                s1 += 1;
            }
            while s2 < e2 && b[s2] == b'0' {
                s2 += 1;
            }
            let (l1, l2) = (e1 - s1, e2 - s2);
            if l1 > l2 {
                return Ordering::Greater;
            }
            if l2 > l1 {
                return Ordering::Less;
            }
        }
        // strcmp on the two segments
        let rc = a[s1..e1].cmp(&b[s2..e2]);
        if rc != Ordering::Equal {
            return rc;
        }
        one = e1;
        two = e2;
    }
    let (c1, c2) = (at(a, one), at(b, two));
    if c1 == 0 && c2 == 0 {
        return Ordering::Equal;
    }
    if c1 == 0 { Ordering::Less } else { Ordering::Greater }
}

/// upstream test vectors (rpm tests/rpmvercmp.at), (a, b, expected)
pub const UPSTREAM_VECTORS: &[(&str, &str, i32)] = &[
    ("1.0", "1.0", 0), ("1.0", "2.0", -1), ("2.0", "1.0", 1),
    ("2.0.1", "2.0.1", 0), ("2.0", "2.0.1", -1), ("2.0.1", "2.0", 1),
    ("2.0.1a", "2.0.1a", 0), ("2.0.1a", "2.0.1", 1), ("2.0.1", "2.0.1a", -1),
    ("5.5p1", "5.5p1", 0), ("5.5p1", "5.5p2", -1), ("5.5p2", "5.5p1", 1),
    ("5.5p10", "5.5p10", 0), ("5.5p1", "5.5p10", -1), ("5.5p10", "5.5p1", 1),
    ("10xyz", "10.1xyz", -1), ("10.1xyz", "10xyz", 1),
    ("xyz10", "xyz10", 0), ("xyz10", "xyz10.1", -1), ("xyz10.1", "xyz10", 1),
    ("xyz.4", "xyz.4", 0), ("xyz.4", "8", -1), ("8", "xyz.4", 1), ("xyz.4", "2", -1), ("2", "xyz.4", 1),
    ("5.5p2", "5.6p1", -1), ("5.6p1", "5.5p2", 1),
    ("5.6p1", "6.5p1", -1), ("6.5p1", "5.6p1", 1),
    ("6.0.rc1", "6.0", 1), ("6.0", "6.0.rc1", -1),
    ("10b2", "10a1", 1), ("10a2", "10b2", -1),
    ("1.0aa", "1.0aa", 0), ("1.0a", "1.0aa", -1), ("1.0aa", "1.0a", 1),
    ("10.0001", "10.0001", 0), ("10.0001", "10.1", 0), ("10.1", "10.0001", 0),
    ("10.0001", "10.0039", -1), ("10.0039", "10.0001", 1),
    ("4.999.9", "5.0", -1), ("5.0", "4.999.9", 1),
    ("20101121", "20101121", 0), ("20101121", "20101122", -1), ("20101122", "20101121", 1),
    ("2_0", "2_0", 0), ("2.0", "2_0", 0), ("2_0", "2.0", 0),
    ("a", "a", 0), ("a+", "a+", 0), ("a+", "a_", 0), ("a_", "a+", 0),
    ("+a", "+a", 0), ("+a", "_a", 0), ("_a", "+a", 0),
    ("+_", "+_", 0), ("_+", "+_", 0), ("_+", "_+", 0), ("+", "_", 0), ("_", "+", 0),
    ("1.0~rc1", "1.0~rc1", 0), ("1.0~rc1", "1.0", -1), ("1.0", "1.0~rc1", 1),
    ("1.0~rc1", "1.0~rc2", -1), ("1.0~rc2", "1.0~rc1", 1),
    ("1.0~rc1~git123", "1.0~rc1~git123", 0), ("1.0~rc1~git123", "1.0~rc1", -1), ("1.0~rc1", "1.0~rc1~git123", 1),
    ("1.0^", "1.0^", 0), ("1.0^", "1.0", 1), ("1.0", "1.0^", -1),
    ("1.0^git1", "1.0^git1", 0), ("1.0^git1", "1.0", 1), ("1.0", "1.0^git1", -1),
    ("1.0^git1", "1.0^git2", -1), ("1.0^git2", "1.0^git1", 1),
    ("1.0^git1", "1.01", -1), ("1.01", "1.0^git1", 1),
    ("1.0^20160101", "1.0^20160101", 0), ("1.0^20160101", "1.0.1", -1), ("1.0.1", "1.0^20160101", 1),
    ("1.0^20160101^git1", "1.0^20160101^git1", 0), ("1.0^20160102", "1.0^20160101^git1", 1), ("1.0^20160101^git1", "1.0^20160102", -1),
    ("1.0~rc1^git1", "1.0~rc1^git1", 0), ("1.0~rc1^git1", "1.0~rc1", 1), ("1.0~rc1", "1.0~rc1^git1", -1),
    ("1.0^git1~pre", "1.0^git1~pre", 0), ("1.0^git1", "1.0^git1~pre", 1), ("1.0^git1~pre", "1.0^git1", -1),
    ("1b.fc17", "1b.fc17", 0), ("1b.fc17", "1.fc17", -1), ("1.fc17", "1b.fc17", 1),
    ("1g.fc17", "1g.fc17", 0), ("1g.fc17", "1.fc17", 1), ("1.fc17", "1g.fc17", -1),
];

pub fn selftest() -> Result<usize, String> {
    for (a, b, e) in UPSTREAM_VECTORS {
        let r = rpmvercmp(a.as_bytes(), b.as_bytes());
        let ri = match r {
            Ordering::Less => -1,
            Ordering::Equal => 0,
            Ordering::Greater => 1,
        };
        if ri != *e {
            return Err(format!("rpmvercmp port disagrees with upstream vector ({a:?}, {b:?}): got {ri}, expected {e}"));
        }
    }
    Ok(UPSTREAM_VECTORS.len())
}
