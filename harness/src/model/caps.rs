//! Acceptor for file-capability text, written from the property statement / libcap's cap_from_text
//! syntax: whitespace-separated clauses; clause = [names] (op flags*)+ ; names = "all" | name{,name};
//! ops from "=+-" never adjacent; flags from "eip"; only a clause starting with '=' may omit names.

pub const KERNEL_CAPS: [&str; 41] = [
    "cap_chown", "cap_dac_override", "cap_dac_read_search", "cap_fowner", "cap_fsetid", "cap_kill",
    "cap_setgid", "cap_setuid", "cap_setpcap", "cap_linux_immutable", "cap_net_bind_service",
    "cap_net_broadcast", "cap_net_admin", "cap_net_raw", "cap_ipc_lock", "cap_ipc_owner",
    "cap_sys_module", "cap_sys_rawio", "cap_sys_chroot", "cap_sys_ptrace", "cap_sys_pacct",
    "cap_sys_admin", "cap_sys_boot", "cap_sys_nice", "cap_sys_resource", "cap_sys_time",
    "cap_sys_tty_config", "cap_mknod", "cap_lease", "cap_audit_write", "cap_audit_control",
    "cap_setfcap", "cap_mac_override", "cap_mac_admin", "cap_syslog", "cap_wake_alarm",
    "cap_block_suspend", "cap_audit_read", "cap_perfmon", "cap_bpf", "cap_checkpoint_restore",
];

#[derive(Clone, Copy, Debug, PartialEq, Eq)]
pub enum Verdict {
    Accept,
    Reject,
    /// the statement does not settle it (see DESIGN.md C19 DC): only "no panic" is judged
    DontCare,
}

fn known_name(s: &str) -> bool {
    s.is_ascii() && KERNEL_CAPS.iter().any(|c| c.eq_ignore_ascii_case(s))
}

fn clause(c: &str) -> (Verdict, &'static str) {
    let b = c.as_bytes();
    let opat = match b.iter().position(|x| matches!(x, b'=' | b'+' | b'-')) {
        Some(i) => i,
        None => return (Verdict::Reject, "clause-without-operator"),
    };
    let names = &c[..opat];
    if names.is_empty() {
        if b[0] != b'=' {
            return (Verdict::Reject, "clause-without-names-not-starting-with-equals");
        }
    } else if !names.eq_ignore_ascii_case("all") {
        for n in names.split(',') {
            if !known_name(n) {
                return (Verdict::Reject, if n.is_empty() { "empty-capability-name" } else { "unknown-capability-name" });
            }
        }
    }
    let suffix = &b[opat..];
    let mut prev_op = false;
    for (i, ch) in suffix.iter().enumerate() {
        match ch {
            b'=' | b'+' | b'-' => {
                if prev_op && i > 0 {
                    return (Verdict::Reject, "adjacent-operators");
                }
                prev_op = true;
            }
            b'e' | b'i' | b'p' => prev_op = false,
            _ => return (Verdict::Reject, "unknown-flag-character"),
        }
    }
    if prev_op {
        // ends in an operator without flags ("cap_chown=", "="): legitimate libcap syntax, but
        // "operator/flag groups" in the statement does not settle it
        return (Verdict::DontCare, "trailing-operator");
    }
    (Verdict::Accept, "well-formed")
}

pub fn judge(text: &str) -> Verdict {
    judge_reason(text).0
}

pub fn judge_reason(text: &str) -> (Verdict, &'static str) {
    if text.chars().any(|c| c.is_whitespace() && !c.is_ascii()) {
        return (Verdict::DontCare, "non-ascii-whitespace"); // what counts as whitespace beyond ASCII is not settled
    }
    let mut any = false;
    let mut dc = None;
    // the six ASCII white-space characters of C's isspace() (Rust's is_ascii_whitespace() leaves out
    // the vertical tab, which every other definition includes)
    for c in text.split(|ch: char| ch.is_ascii_whitespace() || ch == '\x0b').filter(|s| !s.is_empty()) {
        any = true;
        match clause(c) {
            (Verdict::Reject, why) => return (Verdict::Reject, why),
            (Verdict::DontCare, why) => dc = Some(why),
            _ => {}
        }
    }
    if !any {
        return (Verdict::DontCare, "empty-text");
    }
    match dc {
        Some(why) => (Verdict::DontCare, why),
        None => (Verdict::Accept, "well-formed"),
    }
}

pub fn selftest() -> Result<usize, String> {
    let acc = ["cap_net_admin,cap_net_raw+p", "cap_chown=e", "=", "all=eip", "ALL+e-p", "=eip cap_chown-e", "cap_chown=e =p", "CAP_SYSLOG+ep cap_chown=i"];
    let rej = ["cap_net_an,cap_net_raw+p", "+eip", "-e", "=e +p", "cap_chown", "cap_chown=x", "cap_chown=+e", "cap_chown,=e", ",cap_chown=e", "all,cap_chown=e", "cap_chown=e,", "cap_\u{17f}etuid=e"];
    let mut n = 0;
    for a in acc {
        let v = judge(a);
        if v == Verdict::Reject {
            return Err(format!("caps model rejects {a:?}"));
        }
        n += 1;
    }
    for r in rej {
        if judge(r) != Verdict::Reject {
            return Err(format!("caps model does not reject {r:?}"));
        }
        n += 1;
    }
    Ok(n)
}
