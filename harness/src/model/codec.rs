//! M-DEC / M-ENC: an independent decoder and encoder for the RPM container (lead, signature header,
//! main header, payload). Shares no code with the library under test; written from the RPM file
//! format description.

use sha2::Digest;

pub const LEAD_LEN: usize = 96;
pub const HDR_MAGIC: [u8; 3] = [0x8e, 0xad, 0xe8];
pub const LEAD_MAGIC: [u8; 4] = [0xed, 0xab, 0xee, 0xdb];

#[derive(Clone, Debug, PartialEq, Eq)]
pub struct RawEntry {
    pub tag: u32,
    pub typ: u32,
    pub offset: i32,
    pub count: u32,
}

#[derive(Clone, Debug, PartialEq, Eq)]
pub enum Val {
    Null,
    Char(Vec<u8>),
    Int8(Vec<u8>),
    Int16(Vec<u16>),
    Int32(Vec<u32>),
    Int64(Vec<u64>),
    Str(Vec<u8>),
    Bin(Vec<u8>),
    StrArray(Vec<Vec<u8>>),
    I18n(Vec<Vec<u8>>),
}

impl Val {
    pub fn typ(&self) -> u32 {
        match self {
            Val::Null => 0,
            Val::Char(_) => 1,
            Val::Int8(_) => 2,
            Val::Int16(_) => 3,
            Val::Int32(_) => 4,
            Val::Int64(_) => 5,
            Val::Str(_) => 6,
            Val::Bin(_) => 7,
            Val::StrArray(_) => 8,
            Val::I18n(_) => 9,
        }
    }
    pub fn count(&self) -> u32 {
        match self {
            Val::Null => 0,
            Val::Char(v) | Val::Int8(v) | Val::Bin(v) => v.len() as u32,
            Val::Int16(v) => v.len() as u32,
            Val::Int32(v) => v.len() as u32,
            Val::Int64(v) => v.len() as u32,
            Val::Str(_) => 1,
            Val::StrArray(v) | Val::I18n(v) => v.len() as u32,
        }
    }
    pub fn align(&self) -> usize {
        match self {
            Val::Int16(_) => 2,
            Val::Int32(_) => 4,
            Val::Int64(_) => 8,
            _ => 1,
        }
    }
    pub fn encode(&self, out: &mut Vec<u8>) {
        match self {
            Val::Null => {}
            Val::Char(v) | Val::Int8(v) | Val::Bin(v) => out.extend_from_slice(v),
            Val::Int16(v) => v.iter().for_each(|x| out.extend_from_slice(&x.to_be_bytes())),
            Val::Int32(v) => v.iter().for_each(|x| out.extend_from_slice(&x.to_be_bytes())),
            Val::Int64(v) => v.iter().for_each(|x| out.extend_from_slice(&x.to_be_bytes())),
            Val::Str(s) => {
                out.extend_from_slice(s);
                out.push(0)
            }
            Val::StrArray(v) | Val::I18n(v) => {
                for s in v {
                    out.extend_from_slice(s);
                    out.push(0);
                }
            }
        }
    }
    pub fn str(s: &str) -> Val {
        Val::Str(s.as_bytes().to_vec())
    }
    pub fn strs(v: &[&str]) -> Val {
        Val::StrArray(v.iter().map(|s| s.as_bytes().to_vec()).collect())
    }
    pub fn i18n(v: &[&str]) -> Val {
        Val::I18n(v.iter().map(|s| s.as_bytes().to_vec()).collect())
    }
}

pub fn lossy(b: &[u8]) -> String {
    String::from_utf8_lossy(b).to_string()
}

#[derive(Clone, Debug)]
pub struct RawHeader {
    /// absolute offset of the intro (magic)
    pub start: usize,
    pub version: u8,
    pub reserved: [u8; 4],
    pub il: u32,
    pub dl: u32,
    pub entries: Vec<RawEntry>,
    /// absolute offset of the store
    pub store_start: usize,
    /// absolute offset one past the store
    pub end: usize,
}

impl RawHeader {
    pub fn store<'a>(&self, bytes: &'a [u8]) -> &'a [u8] {
        &bytes[self.store_start..self.end]
    }
    pub fn find(&self, tag: u32) -> Option<&RawEntry> {
        self.entries.iter().find(|e| e.tag == tag)
    }
    pub fn find_all(&self, tag: u32) -> Vec<&RawEntry> {
        self.entries.iter().filter(|e| e.tag == tag).collect()
    }
    /// header image as it is hashed/signed: reserved bytes zero
    pub fn canonical_image(&self, bytes: &[u8]) -> Vec<u8> {
        let mut v = bytes[self.start..self.end].to_vec();
        v[4..8].copy_from_slice(&[0; 4]);
        v
    }
}

#[derive(Clone, Debug)]
pub struct RawPackage {
    pub sig: RawHeader,
    /// number of padding bytes after the signature header store
    pub sig_pad: usize,
    pub hdr: RawHeader,
    pub payload_start: usize,
    pub total_len: usize,
}

fn be32(b: &[u8], at: usize) -> Option<u32> {
    b.get(at..at + 4).map(|s| u32::from_be_bytes([s[0], s[1], s[2], s[3]]))
}

/// Walk one header structure starting at `start`.
pub fn walk_header(bytes: &[u8], start: usize) -> Result<RawHeader, String> {
    walk_header_opt(bytes, start, false)
}

/// `lenient` skips the magic/version checks (used to locate segments of inputs that a parser
/// accepted although they are not valid)
pub fn walk_header_opt(bytes: &[u8], start: usize, lenient: bool) -> Result<RawHeader, String> {
    let intro = bytes.get(start..start + 16).ok_or("intro truncated")?;
    if intro[0..3] != HDR_MAGIC && !lenient {
        return Err(format!("bad header magic {:02x?}", &intro[0..3]));
    }
    let version = intro[3];
    if version != 1 && !lenient {
        return Err(format!("bad header version {version}"));
    }
    let mut reserved = [0u8; 4];
    reserved.copy_from_slice(&intro[4..8]);
    let il = be32(intro, 8).unwrap();
    let dl = be32(intro, 12).unwrap();
    let index_len = (il as u64) * 16;
    let total = 16u64 + index_len + dl as u64;
    if (start as u64) + total > bytes.len() as u64 {
        return Err(format!("header (il={il}, dl={dl}) exceeds input"));
    }
    let mut entries = Vec::with_capacity(il as usize);
    let mut p = start + 16;
    for _ in 0..il {
        entries.push(RawEntry {
            tag: be32(bytes, p).unwrap(),
            typ: be32(bytes, p + 4).unwrap(),
            offset: be32(bytes, p + 8).unwrap() as i32,
            count: be32(bytes, p + 12).unwrap(),
        });
        p += 16;
    }
    let store_start = p;
    let end = store_start + dl as usize;
    Ok(RawHeader { start, version, reserved, il, dl, entries, store_start, end })
}

/// Walk a whole package: lead, signature header (+pad to 8), main header, payload.
pub fn walk_package(bytes: &[u8]) -> Result<RawPackage, String> {
    walk_package_opt(bytes, false)
}

pub fn walk_package_opt(bytes: &[u8], lenient: bool) -> Result<RawPackage, String> {
    if bytes.len() < LEAD_LEN {
        return Err("lead truncated".into());
    }
    if bytes[0..4] != LEAD_MAGIC && !lenient {
        return Err("bad lead magic".into());
    }
    let sig = walk_header_opt(bytes, LEAD_LEN, lenient)?;
    let sig_pad = (8 - (sig.dl as usize % 8)) % 8;
    if sig.end + sig_pad > bytes.len() {
        return Err("signature padding truncated".into());
    }
    let hdr = walk_header_opt(bytes, sig.end + sig_pad, lenient)?;
    let payload_start = hdr.end;
    Ok(RawPackage { sig, sig_pad, hdr, payload_start, total_len: bytes.len() })
}

/// Decode the value of one entry strictly (in-range offsets, terminated strings).
pub fn decode_entry(store: &[u8], e: &RawEntry) -> Result<Val, String> {
    if e.offset < 0 {
        return Err("negative offset".into());
    }
    let off = e.offset as usize;
    if off > store.len() {
        return Err("offset past store".into());
    }
    let rest = &store[off..];
    let n = e.count as usize;
    let need = |sz: usize| -> Result<&[u8], String> {
        let total = n.checked_mul(sz).ok_or("count overflow")?;
        rest.get(..total).ok_or_else(|| "data past store".to_string())
    };
    let strings = |k: usize| -> Result<Vec<Vec<u8>>, String> {
        let mut v = Vec::new();
        let mut r = rest;
        for _ in 0..k {
            let p = r.iter().position(|b| *b == 0).ok_or("unterminated string")?;
            v.push(r[..p].to_vec());
            r = &r[p + 1..];
        }
        Ok(v)
    };
    Ok(match e.typ {
        0 => Val::Null,
        1 => Val::Char(need(1)?.to_vec()),
        2 => Val::Int8(need(1)?.to_vec()),
        3 => Val::Int16(need(2)?.chunks(2).map(|c| u16::from_be_bytes([c[0], c[1]])).collect()),
        4 => Val::Int32(need(4)?.chunks(4).map(|c| u32::from_be_bytes([c[0], c[1], c[2], c[3]])).collect()),
        5 => Val::Int64(
            need(8)?
                .chunks(8)
                .map(|c| u64::from_be_bytes([c[0], c[1], c[2], c[3], c[4], c[5], c[6], c[7]]))
                .collect(),
        ),
        6 => Val::Str(strings(1)?.pop().unwrap()),
        7 => Val::Bin(need(1)?.to_vec()),
        8 => Val::StrArray(strings(n)?),
        9 => Val::I18n(strings(n)?),
        t => return Err(format!("unknown type {t}")),
    })
}

/// byte length an entry's data occupies in the store (strings incl. terminators)
pub fn data_len(store: &[u8], e: &RawEntry) -> Result<usize, String> {
    let v = decode_entry(store, e)?;
    let mut tmp = Vec::new();
    v.encode(&mut tmp);
    Ok(tmp.len())
}

// ---------------------------------------------------------------------------------------------
// encoder

/// Lay out (tag, value) items into a store with natural alignment; returns the entries and store.
pub fn layout(items: &[(u32, Val)]) -> (Vec<RawEntry>, Vec<u8>) {
    let mut store = Vec::new();
    let mut entries = Vec::new();
    for (tag, v) in items {
        let a = v.align();
        while store.len() % a != 0 {
            store.push(0);
        }
        entries.push(RawEntry { tag: *tag, typ: v.typ(), offset: store.len() as i32, count: v.count() });
        v.encode(&mut store);
    }
    (entries, store)
}

/// Like `layout`, but every INT16/32/64 value starts at an offset that is NOT a multiple of its size
/// (a filler byte is put in front of it where needed): nothing in the format forbids it, rpmbuild just
/// never writes it.
pub fn layout_misaligned(items: &[(u32, Val)]) -> (Vec<RawEntry>, Vec<u8>) {
    let mut store = Vec::new();
    let mut entries = Vec::new();
    for (tag, v) in items {
        let a = v.align();
        if a > 1 && store.len() % a == 0 {
            store.push(0xa5);
        }
        entries.push(RawEntry { tag: *tag, typ: v.typ(), offset: store.len() as i32, count: v.count() });
        v.encode(&mut store);
    }
    (entries, store)
}

/// Like `layout`, but prepends an rpm-style region tag (62 for signature, 63 for main header).
pub fn layout_with_region(region_tag: u32, items: &[(u32, Val)]) -> (Vec<RawEntry>, Vec<u8>) {
    let (mut entries, mut store) = layout(items);
    let il = entries.len() as i32 + 1;
    let trailer_off = store.len() as i32;
    store.extend_from_slice(&region_tag.to_be_bytes());
    store.extend_from_slice(&7u32.to_be_bytes());
    store.extend_from_slice(&(-(il * 16)).to_be_bytes());
    store.extend_from_slice(&16u32.to_be_bytes());
    entries.insert(0, RawEntry { tag: region_tag, typ: 7, offset: trailer_off, count: 16 });
    (entries, store)
}

/// A region that covers only the first `items.len() - after` items; the remaining items are index
/// entries behind the region whose data follows the region trailer (what rpm leaves behind when a tag
/// is added to a header that was loaded from a package: "dribbles").
pub fn layout_with_region_and_dribbles(region_tag: u32, items: &[(u32, Val)], after: usize) -> (Vec<RawEntry>, Vec<u8>) {
    let cut = items.len().saturating_sub(after);
    let (mut entries, mut store) = layout_with_region(region_tag, &items[..cut]);
    for (tag, v) in &items[cut..] {
        let a = v.align();
        while store.len() % a != 0 {
            store.push(0);
        }
        entries.push(RawEntry { tag: *tag, typ: v.typ(), offset: store.len() as i32, count: v.count() });
        v.encode(&mut store);
    }
    (entries, store)
}

pub fn enc_header_raw(reserved: [u8; 4], il: u32, dl: u32, entries: &[RawEntry], store: &[u8]) -> Vec<u8> {
    let mut out = Vec::with_capacity(16 + entries.len() * 16 + store.len());
    out.extend_from_slice(&HDR_MAGIC);
    out.push(1);
    out.extend_from_slice(&reserved);
    out.extend_from_slice(&il.to_be_bytes());
    out.extend_from_slice(&dl.to_be_bytes());
    for e in entries {
        out.extend_from_slice(&e.tag.to_be_bytes());
        out.extend_from_slice(&e.typ.to_be_bytes());
        out.extend_from_slice(&e.offset.to_be_bytes());
        out.extend_from_slice(&e.count.to_be_bytes());
    }
    out.extend_from_slice(store);
    out
}

pub fn enc_header(entries: &[RawEntry], store: &[u8]) -> Vec<u8> {
    enc_header_raw([0; 4], entries.len() as u32, store.len() as u32, entries, store)
}

pub fn enc_lead(name: &str) -> Vec<u8> {
    let mut l = vec![0u8; LEAD_LEN];
    l[0..4].copy_from_slice(&LEAD_MAGIC);
    l[4] = 3;
    l[5] = 0;
    // type 0 (binary), arch 1
    l[8..10].copy_from_slice(&1u16.to_be_bytes());
    let n = name.as_bytes();
    let k = n.len().min(65);
    l[10..10 + k].copy_from_slice(&n[..k]);
    l[76..78].copy_from_slice(&1u16.to_be_bytes()); // os
    l[78..80].copy_from_slice(&5u16.to_be_bytes()); // signature type
    l
}

/// Assemble a package: lead ‖ signature header ‖ zero pad to 8 ‖ main header ‖ payload.
pub fn enc_package(lead: &[u8], sig_header: &[u8], main_header: &[u8], payload: &[u8]) -> Vec<u8> {
    let mut out = Vec::with_capacity(lead.len() + sig_header.len() + 8 + main_header.len() + payload.len());
    out.extend_from_slice(lead);
    out.extend_from_slice(sig_header);
    // the pad is determined by the data section length of the signature header
    let dl = if sig_header.len() >= 16 { u32::from_be_bytes([sig_header[12], sig_header[13], sig_header[14], sig_header[15]]) as usize } else { 0 };
    let pad = (8 - dl % 8) % 8;
    out.extend(std::iter::repeat(0u8).take(pad));
    out.extend_from_slice(main_header);
    out.extend_from_slice(payload);
    out
}

// ---------------------------------------------------------------------------------------------
// digests recomputed from the bytes

pub struct Digests {
    pub md5_header_payload: Vec<u8>,
    pub sha1_header: String,
    pub sha256_header: String,
    pub sha256_payload: String,
}

pub fn recompute_digests(bytes: &[u8], p: &RawPackage) -> Digests {
    let img = p.hdr.canonical_image(bytes);
    let payload = &bytes[p.payload_start..];
    let mut m = md5::Md5::new();
    m.update(&img);
    m.update(payload);
    Digests {
        md5_header_payload: m.finalize().to_vec(),
        sha1_header: hex::encode(sha1::Sha1::digest(&img)),
        sha256_header: hex::encode(sha2::Sha256::digest(&img)),
        sha256_payload: hex::encode(sha2::Sha256::digest(payload)),
    }
}

// tag numbers used by the harness (from the RPM tag table, not from the library)
pub mod tag {
    pub const SIG_REGION: u32 = 62;
    pub const HDR_REGION: u32 = 63;
    pub const I18NTABLE: u32 = 100;
    // signature header
    pub const SIG_SIZE: u32 = 1000;
    pub const SIG_PGP: u32 = 1002;
    pub const SIG_MD5: u32 = 1004;
    pub const SIG_PAYLOADSIZE: u32 = 1007;
    pub const SIG_DSA: u32 = 267;
    pub const SIG_RSA: u32 = 268;
    pub const SIG_SHA1: u32 = 269;
    pub const SIG_LONGSIGSIZE: u32 = 270;
    pub const SIG_LONGARCHIVESIZE: u32 = 271;
    pub const SIG_SHA256: u32 = 273;
    pub const SIG_FILESIGNATURES: u32 = 274;
    pub const SIG_FILESIGNATURELENGTH: u32 = 275;
    pub const SIG_OPENPGP: u32 = 278;
    // main header
    pub const NAME: u32 = 1000;
    pub const VERSION: u32 = 1001;
    pub const RELEASE: u32 = 1002;
    pub const EPOCH: u32 = 1003;
    pub const SUMMARY: u32 = 1004;
    pub const DESCRIPTION: u32 = 1005;
    pub const BUILDTIME: u32 = 1006;
    pub const BUILDHOST: u32 = 1007;
    pub const SIZE: u32 = 1009;
    pub const VENDOR: u32 = 1011;
    pub const LICENSE: u32 = 1014;
    pub const PACKAGER: u32 = 1015;
    pub const GROUP: u32 = 1016;
    pub const URL: u32 = 1020;
    pub const OS: u32 = 1021;
    pub const ARCH: u32 = 1022;
    pub const PREIN: u32 = 1023;
    pub const POSTIN: u32 = 1024;
    pub const PREUN: u32 = 1025;
    pub const POSTUN: u32 = 1026;
    pub const FILESIZES: u32 = 1028;
    pub const FILEMODES: u32 = 1030;
    pub const FILERDEVS: u32 = 1033;
    pub const FILEMTIMES: u32 = 1034;
    pub const FILEDIGESTS: u32 = 1035;
    pub const FILELINKTOS: u32 = 1036;
    pub const FILEFLAGS: u32 = 1037;
    pub const FILEUSERNAME: u32 = 1039;
    pub const FILEGROUPNAME: u32 = 1040;
    pub const SOURCERPM: u32 = 1044;
    pub const FILEVERIFYFLAGS: u32 = 1045;
    pub const PROVIDENAME: u32 = 1047;
    pub const REQUIREFLAGS: u32 = 1048;
    pub const REQUIRENAME: u32 = 1049;
    pub const REQUIREVERSION: u32 = 1050;
    pub const CONFLICTFLAGS: u32 = 1053;
    pub const CONFLICTNAME: u32 = 1054;
    pub const CONFLICTVERSION: u32 = 1055;
    pub const RPMVERSION: u32 = 1064;
    pub const CHANGELOGTIME: u32 = 1080;
    pub const CHANGELOGNAME: u32 = 1081;
    pub const CHANGELOGTEXT: u32 = 1082;
    pub const PREINPROG: u32 = 1085;
    pub const POSTINPROG: u32 = 1086;
    pub const PREUNPROG: u32 = 1087;
    pub const POSTUNPROG: u32 = 1088;
    pub const OBSOLETENAME: u32 = 1090;
    pub const VERIFYSCRIPTPROG: u32 = 1091;
    pub const VERIFYSCRIPT: u32 = 1079;
    pub const FILEDEVICES: u32 = 1095;
    pub const FILEINODES: u32 = 1096;
    pub const FILELANGS: u32 = 1097;
    pub const SOURCEPACKAGE: u32 = 1106;
    pub const PROVIDEFLAGS: u32 = 1112;
    pub const PROVIDEVERSION: u32 = 1113;
    pub const OBSOLETEFLAGS: u32 = 1114;
    pub const OBSOLETEVERSION: u32 = 1115;
    pub const DIRINDEXES: u32 = 1116;
    pub const BASENAMES: u32 = 1117;
    pub const DIRNAMES: u32 = 1118;
    pub const COOKIE: u32 = 1094;
    pub const PAYLOADFORMAT: u32 = 1124;
    pub const PAYLOADCOMPRESSOR: u32 = 1125;
    pub const PAYLOADFLAGS: u32 = 1126;
    pub const PRETRANS: u32 = 1151;
    pub const POSTTRANS: u32 = 1152;
    pub const PRETRANSPROG: u32 = 1153;
    pub const POSTTRANSPROG: u32 = 1154;
    pub const LONGFILESIZES: u32 = 5008;
    pub const LONGSIZE: u32 = 5009;
    pub const FILECAPS: u32 = 5010;
    pub const FILEDIGESTALGO: u32 = 5011;
    pub const VCS: u32 = 5034;
    pub const PREINFLAGS: u32 = 5020;
    pub const POSTINFLAGS: u32 = 5021;
    pub const PREUNFLAGS: u32 = 5022;
    pub const POSTUNFLAGS: u32 = 5023;
    pub const PRETRANSFLAGS: u32 = 5024;
    pub const POSTTRANSFLAGS: u32 = 5025;
    pub const VERIFYSCRIPTFLAGS: u32 = 5026;
    pub const RECOMMENDNAME: u32 = 5046;
    pub const RECOMMENDVERSION: u32 = 5047;
    pub const RECOMMENDFLAGS: u32 = 5048;
    pub const SUGGESTNAME: u32 = 5049;
    pub const SUGGESTVERSION: u32 = 5050;
    pub const SUGGESTFLAGS: u32 = 5051;
    pub const SUPPLEMENTNAME: u32 = 5052;
    pub const SUPPLEMENTVERSION: u32 = 5053;
    pub const SUPPLEMENTFLAGS: u32 = 5054;
    pub const ENHANCENAME: u32 = 5055;
    pub const ENHANCEVERSION: u32 = 5056;
    pub const ENHANCEFLAGS: u32 = 5057;
    pub const ENCODING: u32 = 5062;
    pub const PAYLOADDIGEST: u32 = 5092;
    pub const PAYLOADDIGESTALGO: u32 = 5093;
    pub const PAYLOADDIGESTALT: u32 = 5097;
    pub const PREUNTRANS: u32 = 5103;
    pub const POSTUNTRANS: u32 = 5104;
    pub const PREUNTRANSPROG: u32 = 5105;
    pub const POSTUNTRANSPROG: u32 = 5106;
    pub const PREUNTRANSFLAGS: u32 = 5107;
    pub const POSTUNTRANSFLAGS: u32 = 5108;
}

// ---------------------------------------------------------------------------------------------
// decoded views used by several oracles

impl RawHeader {
    /// decode the first entry with this tag
    pub fn get(&self, bytes: &[u8], tag: u32) -> Option<Result<Val, String>> {
        self.find(tag).map(|e| decode_entry(self.store(bytes), e))
    }
    pub fn get_strs(&self, bytes: &[u8], tag: u32) -> Option<Vec<Vec<u8>>> {
        match self.get(bytes, tag)? {
            Ok(Val::StrArray(v)) | Ok(Val::I18n(v)) => Some(v),
            Ok(Val::Str(s)) => Some(vec![s]),
            _ => None,
        }
    }
    pub fn get_str(&self, bytes: &[u8], tag: u32) -> Option<Vec<u8>> {
        match self.get(bytes, tag)? {
            Ok(Val::Str(s)) => Some(s),
            Ok(Val::I18n(mut v)) | Ok(Val::StrArray(mut v)) if !v.is_empty() => Some(v.remove(0)),
            _ => None,
        }
    }
    pub fn get_u32s(&self, bytes: &[u8], tag: u32) -> Option<Vec<u32>> {
        match self.get(bytes, tag)? {
            Ok(Val::Int32(v)) => Some(v),
            _ => None,
        }
    }
    pub fn get_u16s(&self, bytes: &[u8], tag: u32) -> Option<Vec<u16>> {
        match self.get(bytes, tag)? {
            Ok(Val::Int16(v)) => Some(v),
            _ => None,
        }
    }
    pub fn get_u64s(&self, bytes: &[u8], tag: u32) -> Option<Vec<u64>> {
        match self.get(bytes, tag)? {
            Ok(Val::Int64(v)) => Some(v),
            _ => None,
        }
    }
}

/// The file list of a main header as an independent decoder sees it.
#[derive(Clone, Debug, Default)]
pub struct FileList {
    pub paths: Vec<Vec<u8>>,
    pub sizes: Vec<u64>,
    pub modes: Vec<u16>,
    pub flags: Vec<u32>,
    pub mtimes: Vec<u32>,
    pub digests: Vec<Vec<u8>>,
    pub linktos: Vec<Vec<u8>>,
    pub users: Vec<Vec<u8>>,
    pub groups: Vec<Vec<u8>>,
    pub digest_algo: Option<u32>,
}

pub fn decode_files(bytes: &[u8], h: &RawHeader) -> Result<FileList, String> {
    let Some(base) = h.get_strs(bytes, tag::BASENAMES) else { return Ok(FileList::default()) };
    let dirs = h.get_strs(bytes, tag::DIRNAMES).ok_or("DIRNAMES missing")?;
    let idx = h.get_u32s(bytes, tag::DIRINDEXES).ok_or("DIRINDEXES missing")?;
    if idx.len() != base.len() {
        return Err("DIRINDEXES/BASENAMES length mismatch".into());
    }
    let mut paths = Vec::new();
    for (b, i) in base.iter().zip(&idx) {
        let d = dirs.get(*i as usize).ok_or("dirindex out of range")?;
        let mut p = d.clone();
        p.extend_from_slice(b);
        paths.push(p);
    }
    let sizes = match h.get_u64s(bytes, tag::LONGFILESIZES) {
        Some(v) => v,
        None => h.get_u32s(bytes, tag::FILESIZES).ok_or("FILESIZES missing")?.into_iter().map(|x| x as u64).collect(),
    };
    Ok(FileList {
        paths,
        sizes,
        modes: h.get_u16s(bytes, tag::FILEMODES).unwrap_or_default(),
        flags: h.get_u32s(bytes, tag::FILEFLAGS).unwrap_or_default(),
        mtimes: h.get_u32s(bytes, tag::FILEMTIMES).unwrap_or_default(),
        digests: h.get_strs(bytes, tag::FILEDIGESTS).unwrap_or_default(),
        linktos: h.get_strs(bytes, tag::FILELINKTOS).unwrap_or_default(),
        users: h.get_strs(bytes, tag::FILEUSERNAME).unwrap_or_default(),
        groups: h.get_strs(bytes, tag::FILEGROUPNAME).unwrap_or_default(),
        digest_algo: h.get_u32s(bytes, tag::FILEDIGESTALGO).and_then(|v| v.first().copied()),
    })
}

/// collapse repeated slashes (used where a check must stay independent of another property's defect)
pub fn collapse_slashes(p: &[u8]) -> Vec<u8> {
    let mut out = Vec::with_capacity(p.len());
    for b in p {
        if *b == b'/' && out.last() == Some(&b'/') {
            continue;
        }
        out.push(*b);
    }
    out
}
